"""C02 — Writer and reader each agree with the protobuf schema field by field."""
from __future__ import annotations

import ast
import re
from typing import Dict, List, Optional, Set, Tuple

from ..cfg import CFG
from ..model import (AnalysisError, ClassInfo, FuncInfo, Repo, attr_path, const_str, dotted,
                     local_aliases, unparse, walk_no_nested)
from ..proto_schema import INT_SCALARS, Schema, protobuf_version
from ..protoflow import Access, ProtoFlow
from ..report import Check

RULES = {
    "R02.1": "writer field coverage: every non-reserved field of every message reachable from "
             "IR is assigned by the package; at most one oneof alternative on any path",
    "R02.2": "writer name/kind agreement: the value assigned to M.f derives from the attribute "
             "pi(M.f); reference fields take <node>.uuid.bytes, enum fields <member>.value, "
             "has_address follows an 'is None' test of address",
    "R02.3": "reader field coverage and name agreement: every field is read and flows to the "
             "constructor keyword / attribute pi(M.f)",
    "R02.4": "enum mirror: Python Enum members are exactly the schema's constants",
    "R02.5": "header layout: GTIRB, two zero bytes, 1-byte protobuf version, then the message; "
             "the reader consumes 5,1,1,1 and compares the first and the fourth",
}

# pi: schema field -> Python attribute, where it is not the identity (frozen, one reason each)
PI: Dict[Tuple[str, str], str] = {
    ("Section", "section_flags"): "flags",           # historical field name
    ("Symbol", "referent_uuid"): "referent",         # reference by UUID
    ("SymAddrConst", "symbol_uuid"): "symbol",
    ("SymAddrAddr", "symbol1_uuid"): "symbol1",
    ("SymAddrAddr", "symbol2_uuid"): "symbol2",
    ("Edge", "source_uuid"): "source",
    ("Edge", "target_uuid"): "target",
    ("SymbolicExpression", "attribute_flags"): "attributes",
    ("CFG", "vertices"): "cfg_nodes",                # derived on write
    ("CFG", "edges"): "cfg",
    ("ByteInterval", "has_address"): "address",      # presence flag of address
}
# fields whose value flow is decided elsewhere
WRITE_EXEMPT = {("AuxData", "data"): "raw-bytes reuse vs re-encoding is C14's rule R14.2"}
READ_SINK_EXEMPT = {("AuxData", "data"): "held raw in the lazy container (C14 R14.3)",
                    ("CFG", "vertices"): "derived on write; vertices are recreated from the modules"}
READ_EXEMPT = {("CFG", "vertices"): "derived on write; vertices are recreated from the modules"}
UNREFERENCED = {"SymStackConst"}
EDGE_TUPLE_POS = {"source_uuid": 0, "target_uuid": 1, "label": 2, "type": 2, "conditional": 2, "direct": 2}

ENUM_ALIAS = {   # Python member -> proto constant where the names differ
    "Undefined": re.compile(r".*_Undefined$"),
    "Big": re.compile(r"BigEndian$"), "Little": re.compile(r"LittleEndian$"),
    "Default": re.compile(r"All_Default$"), "Thumb": re.compile(r"ARM_Thumb$"),
}


def _facts(chk: Check) -> Tuple[Schema, ProtoFlow]:
    repo = chk.repo
    cache = getattr(repo, "_protoflow", None)
    if cache is None:
        s = Schema(repo)
        cache = (s, ProtoFlow(repo, s))
        repo._protoflow = cache   # type: ignore[attr-defined]
    return cache


def run(chk: Check) -> None:
    chk.explanation = (
        "Schema-typed dataflow (message types propagated from _pb2 constructors, annotations, "
        "isinstance asserts, repeated/map iteration) attributes every field read and write in "
        "the package to a (Message, field) pair; each direction is compared with proto/*.proto "
        "on its own, so a symmetric mistake is caught.  Python enums are compared with the "
        "schema's enums; the header with PROTOBUF.md and version.txt.  Behaviour under the two "
        "protobuf back-ends is not decided.")
    for k, v in RULES.items():
        chk.rule(k, v)
    schema, pf = _facts(chk)
    msgs = [m for m in schema.reachable("IR")] + ["Offset"]
    chk.floor("R02.1", "schema fields reachable from IR", schema.field_count(schema.reachable("IR")), 62)
    chk.extra["messages"] = msgs
    for a in pf.writes + pf.reads:
        chk.functions.add(a.f.qualname)
    _coverage(chk, schema, pf, msgs)
    _write_paths(chk, schema, pf, msgs)
    _whole_collections(chk, schema, pf, msgs)
    _fresh_objects(chk, schema, pf)
    _presence_flag(chk, pf)
    _submessage_presence(chk, schema, pf, msgs)
    _write_conditions(chk, schema, pf, msgs)
    chk.floor("R02.2", "writer functions scanned for refusals", writers_total(chk, "R02.2"), 8)
    scalars_pass_through(chk, "R02.2")
    _writer_agreement(chk, schema, pf, msgs)
    _reader_agreement(chk, schema, pf, msgs)
    _enums(chk, schema, pf)
    _header(chk)
    # the deferred half of the reader (symbolic expressions) belongs to the reader direction
    from .loader import deferred_stage
    sub = chk.sub()
    deferred_stage(sub, "R02.3")
    chk.adopt(sub, None, "R02.3")
    # (AuxData, data): exempt from the generic name rule, decided by the raw-reuse rule
    from .c14 import _to_protobuf, _typestate
    sub = chk.sub()
    _typestate(sub, chk.repo.cls("AuxData"))
    _to_protobuf(sub, chk.repo.cls("AuxData"))
    chk.adopt(sub, None, "R02.2")
    from .c01 import _falsy
    sub = chk.sub()
    _falsy(sub, chk.repo, schema)
    chk.adopt(sub, lambda o: "truthiness" in o.construct, "R02.3")


# ---------------------------------------------------------------------------
# R02.1 / R02.3 coverage


def _coverage(chk: Check, schema: Schema, pf: ProtoFlow, msgs: List[str]) -> None:
    for m in msgs:
        M = schema.messages[m]
        for fname, fld in M.fields.items():
            w = pf.written(m, fname)
            loc = w[0].loc if w else "%s:%d" % (M.file, fld.line)
            chk.ob("R02.1", "%s.%s:written" % (m, fname), bool(w), loc,
                   "no writer assigns %s.%s: the field is always saved at its default" % (m, fname), 2,
                   undecided=m in pf.dynamic)
            r = pf.read(m, fname)
            if (m, fname) in READ_EXEMPT:
                continue
            loc = r[0].loc if r else "%s:%d" % (M.file, fld.line)
            chk.ob("R02.3", "%s.%s:read" % (m, fname), bool(r), loc,
                   "no reader reads %s.%s: the field is ignored on load" % (m, fname), 2,
                   undecided=m in pf.dynamic)
        for g, alts in M.oneofs.items():
            # at most one alternative on any path of a writer function
            by_func: Dict[str, List[Access]] = {}
            for a in alts:
                for w in pf.written(m, a):
                    by_func.setdefault(w.f.qualname, []).append(w)
            for fq, ws in by_func.items():
                f = ws[0].f
                cfg = CFG(f.node)
                bad = None
                for w1 in ws:
                    # a path on which the same message object receives a second alternative:
                    # re-creation of the object (a fresh message per loop iteration) cuts it
                    fresh: Set[int] = set()
                    if isinstance(w1.base, ast.Name):
                        bn = w1.base.id
                        fresh = cfg.nodes_where(lambda x: isinstance(x, (ast.Assign, ast.AnnAssign)) and any(
                            isinstance(t, ast.Name) and t.id == bn
                            for t in (x.targets if isinstance(x, ast.Assign) else [x.target])))
                    for w2 in ws:
                        if w1.field != w2.field:
                            n1, n2 = cfg.node_of(w1.node), cfg.node_of(w2.node)
                            if n1 != n2 and n2 in cfg.reachable(n1, fresh):
                                bad = (w1, w2)
                chk.ob("R02.1", "%s.%s:oneof-exclusive(%s)" % (m, g, fq), bad is None, ws[0].loc,
                       "a path through %s assigns two alternatives of oneof %s.%s (%s): the last "
                       "one silently wins" % (fq, m, g, ", ".join(sorted({w.field for w in ws}))), 2)


# ---------------------------------------------------------------------------
# R02.2


def _attrs_in(e: Optional[ast.AST], al: Dict[str, ast.AST], depth: int = 0) -> Set[str]:
    out: Set[str] = set()
    if e is None or depth > 4:
        return out
    for n in ast.walk(e):
        if isinstance(n, ast.Attribute):
            out.add(n.attr)
        elif isinstance(n, ast.Name) and n.id in al:
            out |= _attrs_in(al[n.id], al, depth + 1)
    return out


def _elt(e: ast.AST) -> ast.AST:
    """the element expression of a generator / list passed to extend()"""
    if isinstance(e, (ast.GeneratorExp, ast.ListComp, ast.SetComp)):
        return e.elt
    return e


def _resolve_local(e: ast.AST, al: Dict[str, ast.AST], depth: int = 0) -> ast.AST:
    while isinstance(e, ast.Name) and e.id in al and depth < 4:
        e = al[e.id]
        depth += 1
    return e


def _ends_with(e: ast.AST, attr: str, al: Dict[str, ast.AST]) -> bool:
    e = _elt(_resolve_local(e, al))
    if isinstance(e, ast.IfExp):
        return _ends_with(e.body, attr, al) or _ends_with(e.orelse, attr, al)
    if isinstance(e, ast.Call) and attr_path(e.func) in (("bytes",), ("int",)) and len(e.args) == 1:
        return _ends_with(e.args[0], attr, al)
    return isinstance(e, ast.Attribute) and e.attr == attr


def _writer_agreement(chk: Check, schema: Schema, pf: ProtoFlow, msgs: List[str]) -> None:
    n = 0
    for w in pf.writes:
        if w.msg not in msgs or w.how in ("sub", "clear"):
            continue
        fld = schema.messages[w.msg].fields[w.field]
        key = "%s.%s@%s" % (w.msg, w.field, w.f.qualname)
        if (w.msg, w.field) in WRITE_EXEMPT:
            continue
        n += 1
        al = local_aliases(w.f.node)
        env = pf.envs.get(w.f.qualname, {})
        want = PI.get((w.msg, w.field), w.field)
        ok = False
        why = ""
        val = w.value
        if w.how == "passed":
            # the callee iterates self.<want> and fills the map
            call = w.node
            callee = call.func.attr if isinstance(call, ast.Call) and isinstance(call.func, ast.Attribute) else ""
            g = w.f.cls.find_method(callee) if w.f.cls else None
            if g is not None:
                chk.saw(g)
                ok = want in _attrs_in(g.node, local_aliases(g.node))
            why = "callee %s does not iterate self.%s" % (callee, want)
        else:
            vt = pf.ptype(_elt(_resolve_local(val, al)), env, w.f) if val is not None else None
            attrs = _attrs_in(val, al)
            if vt and vt[0] == "msg":
                ok = vt[1] == fld.type
                why = "value is a %s message, field type is %s" % (vt[1], fld.type)
                if ok and fld.label == "repeated" and want not in attrs:
                    ok = False
                    why = "iterates %s, not self.%s" % (sorted(attrs)[:4], want)
            elif fld.type in schema.messages:
                # message-typed field fed by X._to_protobuf(): the receiver's writer must
                # return the field's message type
                ok, why = _to_protobuf_kind(chk, w, fld.type, al)
                if ok and fld.label in ("repeated", "map") and want not in attrs:
                    # children collections: the iterated attribute must be pi(f)
                    ok = False
                    why = "iterates %s, not self.%s" % (sorted(attrs)[:4], want)
            elif w.msg in ("Edge", "EdgeLabel") and _edge_tuple_ok(w, al):
                ok = True
            else:
                ok = want in attrs
                why = "value %s does not derive from attribute '%s'" % (
                    unparse(val)[:50] if val is not None else "?", want)
                if w.field == "has_address":
                    ok, why = _has_address(w, al)
        chk.ob("R02.2", key + ":source", ok, w.loc,
               "%s.%s is written from the wrong source in %s: %s" % (w.msg, w.field, w.f.qualname, why), 3)
        # kind
        if val is None or w.how == "passed":
            continue
        if fld.type == "bytes" and w.field not in ("contents", "data"):
            k_ok = _ends_with(val, "bytes", al)
            chk.ob("R02.2", key + ":kind-uuid-bytes", k_ok, w.loc,
                   "%s.%s is a 16-byte UUID field: it must be assigned <node>.uuid.bytes, got %s"
                   % (w.msg, w.field, unparse(val)[:50]), 2)
        if fld.type in schema.enums:
            k_ok = _ends_with(val, "value", al)
            chk.ob("R02.2", key + ":kind-enum-value", k_ok, w.loc,
                   "%s.%s is an enum field: it must be assigned <member>.value, got %s"
                   % (w.msg, w.field, unparse(val)[:50]), 2)
    chk.floor("R02.2", "field writes", n, 42)
    # ByteInterval.address written only where address is known not None
    for w in pf.written("ByteInterval", "address"):
        ok, why = _guarded_not_none(w, "address")
        chk.ob("R02.2", "ByteInterval.address@%s:guard" % w.f.qualname, ok, w.loc,
               "ByteInterval.address is assigned on a path where self.address may be None or its "
               "presence was decided by truthiness (%s)" % why, 2)
    for (m_, f_, attr_) in (("Module", "entry_point", "entry_point"), ("Symbol", "referent_uuid", "referent"),
                            ("SymAddrConst", "symbol_uuid", "symbol")):
        for w in pf.written(m_, f_):
            cfgw = CFG(w.f.node)
            none_b, notnone_b = _none_test_branches(cfgw, attr_)
            if not notnone_b and not none_b:
                continue       # unconditionally present in this writer
            okw, whyw = _guarded_not_none(w, attr_)
            chk.ob("R02.2", "%s.%s@%s:guard" % (m_, f_, w.f.qualname), okw, w.loc,
                   "%s.%s is written from self.%s on a path that did not establish it is not None (%s)"
                   % (m_, f_, attr_, whyw), 2)
    for w in pf.written("Symbol", "value"):
        ok, why = _guarded_not_none(w, "value")
        chk.ob("R02.2", "Symbol.value@%s:guard" % w.f.qualname, ok, w.loc,
               "Symbol.value must be written exactly when self.value is not None (%s)" % why, 2)


def _to_protobuf_kind(chk: Check, w: Access, field_type: str, al: Dict[str, ast.AST]) -> Tuple[bool, str]:
    val = _elt(_resolve_local(w.value, al)) if w.value is not None else None
    if not (isinstance(val, ast.Call) and isinstance(val.func, ast.Attribute)
            and val.func.attr == "_to_protobuf"):
        return False, "value %s is neither a %s message nor X._to_protobuf()" % (
            unparse(val)[:40] if val is not None else "?", field_type)
    recv = val.func.value
    # receiver class: isinstance narrowing on the path, or annotation / collection element
    classes: List[ClassInfo] = []
    cur = getattr(w.node, "_parent", None)
    node: ast.AST = w.node
    while cur is not None and not isinstance(cur, ast.FunctionDef):
        if isinstance(cur, ast.If) and node in cur.body:
            t = cur.test
            if isinstance(t, ast.Call) and attr_path(t.func) == ("isinstance",) and len(t.args) == 2 \
                    and unparse(t.args[0]) == unparse(recv):
                d = dotted(t.args[1])
                c = chk.repo.resolve_name(w.f.module, ".".join(d), w.f.cls) if d else None
                if c:
                    classes.append(c)
        node, cur = cur, getattr(cur, "_parent", None)
    if not classes:
        return True, ""       # receiver class not narrowed here: decided by the name rule
    for c in classes[:1]:
        g = c.find_method("_to_protobuf")
        if g is None:
            return False, "%s has no _to_protobuf" % c.qualname
        d = dotted(g.node.returns) if g.node.returns is not None else None
        if d and d[-1] != field_type:
            return False, "%s._to_protobuf returns %s, the field holds %s" % (c.qualname, d[-1], field_type)
    return True, ""


def _edge_tuple_ok(w: Access, al: Dict[str, ast.AST]) -> bool:
    """CFG writer: values come from the (source, target, label) tuple of the
    multigraph's edge iteration, by position"""
    pos = EDGE_TUPLE_POS.get(w.field)
    if pos is None or w.value is None:
        return False
    root = w.value
    while isinstance(root, (ast.Attribute, ast.Call)):
        root = root.value if isinstance(root, ast.Attribute) else root.func
    if not isinstance(root, ast.Name):
        return False
    cur = getattr(w.node, "_parent", None)
    while cur is not None and not isinstance(cur, ast.FunctionDef):
        if isinstance(cur, ast.For) and isinstance(cur.target, ast.Tuple) and len(cur.target.elts) == 3:
            names = [e.id if isinstance(e, ast.Name) else None for e in cur.target.elts]
            it = cur.iter
            if isinstance(it, ast.Call) and isinstance(it.func, ast.Attribute) and it.func.attr == "edges":
                if names[pos] == root.id:
                    if w.msg == "EdgeLabel":
                        return isinstance(w.value, ast.Attribute) and (
                            w.field in _attrs_in(w.value, {}))
                    return True
                return False
        cur = getattr(cur, "_parent", None)
    # edge.source.uuid.bytes style
    return PI.get((w.msg, w.field), w.field) in _attrs_in(w.value, al)


def _none_test_branches(cfg: CFG, attr: str) -> Tuple[Set[int], Set[int]]:
    """(branches where self.<attr> is None, branches where it is not None)"""
    none: Set[int] = set()
    notnone: Set[int] = set()
    for n, i in cfg.info.items():
        if i.kind != "test" or not isinstance(i.ast, ast.Compare):
            continue
        c = i.ast
        if len(c.ops) != 1 or not isinstance(c.ops[0], (ast.Is, ast.IsNot)):
            continue
        if not (isinstance(c.comparators[0], ast.Constant) and c.comparators[0].value is None):
            continue
        p = attr_path(c.left)
        if not p or p[-1] != attr:
            continue
        for s in cfg.g.successors(n):
            si = cfg.info[s]
            if si.kind == "branch":
                is_none = (si.value == isinstance(c.ops[0], ast.Is))
                (none if is_none else notnone).add(s)
    return none, notnone


def _has_address(w: Access, al: Dict[str, ast.AST]) -> Tuple[bool, str]:
    v = w.value
    if isinstance(v, ast.Compare) and len(v.ops) == 1 and isinstance(v.ops[0], ast.IsNot) \
            and isinstance(v.comparators[0], ast.Constant) and v.comparators[0].value is None \
            and (attr_path(v.left) or ("",))[-1] == "address":
        return True, ""
    if isinstance(v, ast.Constant) and isinstance(v.value, bool):
        cfg = CFG(w.f.node)
        none, notnone = _none_test_branches(cfg, "address")
        need = notnone if v.value else none
        n = cfg.node_of(w.node)
        if need and cfg.path_avoiding(cfg.entry, n, need) is None:
            return True, ""
        return False, "has_address = %s is not dominated by the matching 'address is None' outcome" % v.value
    return False, "has_address must be the result of an 'is None' test on address, got %s" % (
        unparse(v)[:40] if v is not None else "?")


def _guarded_not_none(w: Access, attr: str) -> Tuple[bool, str]:
    cfg = CFG(w.f.node)
    none, notnone = _none_test_branches(cfg, attr)
    n = cfg.node_of(w.node)
    if not notnone:
        return False, "no 'is None' test of %s" % attr
    if cfg.path_avoiding(cfg.entry, n, notnone) is not None:
        return False, "a path reaches the assignment without passing '%s is not None'" % attr
    return True, ""


# ---------------------------------------------------------------------------
# R02.3 name agreement


def _ctor_params(repo: Repo, f: FuncInfo, func: ast.AST) -> Optional[List[str]]:
    """parameter names (after self/cls) of the constructor / method ``func``"""
    d = dotted(func)
    if not d:
        return None
    cls: Optional[ClassInfo] = None
    meth: Optional[str] = None
    if d == ("cls",) and f.cls is not None:
        cls = f.cls
    elif d[0] == "cls" and len(d) == 2 and f.cls is not None:
        cls, meth = f.cls, d[1]
    else:
        cls = repo.resolve_name(f.module, ".".join(d), f.cls)
        if cls is None and len(d) >= 2:
            owner = repo.resolve_name(f.module, ".".join(d[:-1]), f.cls)
            if owner is not None:
                al = owner.class_assigns.get(d[-1])
                if isinstance(al, ast.Name):
                    cls = repo.resolve_name(owner.module, al.id, None)
                elif owner.find_method(d[-1]) is not None:
                    cls, meth = owner, d[-1]
    if cls is None:
        return None
    if meth is not None:
        g = cls.find_method(meth)
        if g is None:
            return None
        ps = g.param_names()
        return ps[1:] if (g.is_classmethod or g.self_name) and not g.is_staticmethod else ps
    for nm in ("__new__", "__init__"):
        g = cls.find_method(nm)
        if g is not None:
            return g.param_names()[1:]
    if cls.is_subclass_of("typing.NamedTuple"):
        if cls.class_annots:
            return list(cls.class_annots)
        for b in cls.base_exprs:
            if isinstance(b, ast.Call) and len(b.args) == 2 and isinstance(b.args[1], (ast.Tuple, ast.List)):
                out = []
                for e in b.args[1].elts:
                    if isinstance(e, ast.Tuple) and e.elts:
                        s = const_str(e.elts[0])
                        if s:
                            out.append(s)
                return out
    return None


_NEUTRAL_CALLS = {"UUID", "bytes", "int", "str", "bytearray", "bool", "set", "list", "tuple", "dict"}


def _sinks(repo: Repo, f: FuncInfo, node: ast.AST, depth: int = 0, seen: Optional[Set[str]] = None
           ) -> Set[str]:
    """names (constructor keywords / attributes) the value at ``node`` flows to"""
    out: Set[str] = set()
    if depth > 6:
        return out
    seen = seen if seen is not None else set()
    cur = node
    par = getattr(cur, "_parent", None)
    while par is not None and not isinstance(par, (ast.FunctionDef, ast.Lambda)):
        if isinstance(par, ast.keyword):
            call = getattr(par, "_parent", None)
            d = dotted(call.func) if isinstance(call, ast.Call) else None
            if d and d[-1] in _NEUTRAL_CALLS or (d and d[-1] == "from_bytes"):
                cur, par = call, getattr(call, "_parent", None)
                continue
            if par.arg:
                out.add(par.arg)
            return out
        if isinstance(par, ast.Call) and cur in par.args:
            d = dotted(par.func)
            last = d[-1] if d else (par.func.attr if isinstance(par.func, ast.Attribute) else "")
            if isinstance(par.func, ast.Attribute) and last in ("update", "extend", "add", "append") \
                    and not (d and d[0] in ("cls",)):
                p = attr_path(par.func.value)
                if p:
                    out.add(p[-1])
                return out
            params = _ctor_params(repo, f, par.func)
            if params is not None and last not in _NEUTRAL_CALLS:
                idx = par.args.index(cur)
                if last in ("_from_protobuf", "_read_protobuf_aux_data"):
                    pass      # decoding helper: the result carries the value on
                elif idx < len(params):
                    out.add(params[idx])
                    return out
            cur, par = par, getattr(par, "_parent", None)
            continue
        if isinstance(par, (ast.Assign, ast.AnnAssign)) and par.value is not None and \
                _contains(par.value, cur):
            tgs = par.targets if isinstance(par, ast.Assign) else [par.target]
            for t in tgs:
                if isinstance(t, ast.Attribute):
                    out.add(t.attr)
                elif isinstance(t, ast.Subscript):
                    p = attr_path(t.value)
                    if p:
                        out.add(p[-1])
                elif isinstance(t, ast.Name) and t.id not in seen:
                    seen.add(t.id)
                    fn = par
                    while fn is not None and not isinstance(fn, ast.FunctionDef):
                        fn = getattr(fn, "_parent", None)
                    if fn is not None:
                        for use in walk_no_nested(fn):
                            if isinstance(use, ast.Name) and use.id == t.id and isinstance(use.ctx, ast.Load):
                                out |= _sinks(repo, f, use, depth + 1, seen)
            return out
        if isinstance(par, (ast.For, ast.comprehension)) and par.iter is cur or \
                (isinstance(par, (ast.For, ast.comprehension)) and _contains(par.iter, cur)):
            # element flow: follow the loop variable(s)
            names = [n.id for n in ast.walk(par.target) if isinstance(n, ast.Name)]
            scope = par if isinstance(par, ast.For) else getattr(par, "_parent", None)
            if scope is not None:
                for use in ast.walk(scope):
                    if isinstance(use, ast.Name) and use.id in names and isinstance(use.ctx, ast.Load) \
                            and use.id not in seen:
                        out |= _sinks(repo, f, use, depth + 1, seen | {use.id})
            if isinstance(par, ast.comprehension):
                # the comprehension itself flows on
                comp = getattr(par, "_parent", None)
                if comp is not None:
                    out |= _sinks(repo, f, comp, depth + 1, seen)
            return out
        if isinstance(par, ast.IfExp) and par.test is cur:
            cur, par = par, getattr(par, "_parent", None)     # the test selects the value that flows on
            continue
        if isinstance(par, (ast.If, ast.While)) and par.test is cur:
            return out
        if isinstance(par, ast.IfExp) and par.test is not cur:
            cur, par = par, getattr(par, "_parent", None)
            continue
        if isinstance(par, (ast.Return, ast.Expr, ast.Raise, ast.Assert)):
            return out
        cur, par = par, getattr(par, "_parent", None)
    return out


def _contains(tree: ast.AST, node: ast.AST) -> bool:
    return any(n is node for n in ast.walk(tree))


def _reader_agreement(chk: Check, schema: Schema, pf: ProtoFlow, msgs: List[str]) -> None:
    n = 0
    for m in msgs:
        for fname, fld in schema.messages[m].fields.items():
            if (m, fname) in READ_SINK_EXEMPT:
                continue
            reads = [r for r in pf.read(m, fname) if r.how == "load"]
            if not reads:
                continue
            want = PI.get((m, fname), fname)
            sinks: Set[str] = set()
            for r in reads:
                sinks |= _sinks(chk.repo, r.f, r.node)
            n += 1
            # names of *other* fields' attributes are wrong sinks; helper names are neutral
            all_attrs = {PI.get((m, g), g) for g in schema.messages[m].fields}
            wrong = sorted((sinks & all_attrs) - {want})
            if fld.type in schema.messages or fld.oneof and fld.type in schema.messages:
                # sub-messages are decoded by their own reader; the kind check is R02.3k
                ok = not wrong or want in sinks
            else:
                ok = want in sinks and not wrong
            chk.ob("R02.3", "%s.%s:flows-to(%s)" % (m, fname, want), ok, reads[0].loc,
                   "%s.%s is read into %s; it must reach the constructor keyword / attribute '%s'"
                   % (m, fname, sorted(sinks) or "nothing recognisable", want), 3 if sinks else 0)
    chk.floor("R02.3", "fields with a resolved read", n, 38)
    # kind: message-typed values handed to K._from_protobuf must be K's message
    for r in pf.reads:
        par = getattr(r.node, "_parent", None)
        env = pf.envs.get(r.f.qualname, {})
    for f in chk.repo.all_functions():
        env = pf.envs.get(f.qualname, {})
        for c in walk_no_nested(f.node):
            if isinstance(c, ast.Call) and isinstance(c.func, ast.Attribute) and \
                    c.func.attr == "_from_protobuf" and c.args:
                t = pf.ptype(c.args[0], env, f)
                d = dotted(c.func.value)
                K = chk.repo.resolve_name(f.module, ".".join(d), f.cls) if d and d != ("cls",) else None
                if t is None or t[0] != "msg" or K is None:
                    continue
                g = K.find_method("_to_protobuf")
                rd = dotted(g.node.returns) if g is not None and g.node.returns is not None else None
                if rd is None or rd[-1] not in schema.messages:
                    continue
                chk.call_sites += 1
                chk.ob("R02.3", "%s:%s._from_protobuf(%s)" % (f.qualname, K.name, t[1]),
                       rd[-1] == t[1], f.loc(c),
                       "%s decodes a %s message with %s, whose writer produces %s"
                       % (f.qualname, t[1], K.qualname, rd[-1]), 2)
    # enum-typed fields are read through their Enum
    for m in msgs:
        for fname, fld in schema.messages[m].fields.items():
            if fld.type not in schema.enums:
                continue
            for r in pf.read(m, fname):
                if r.how != "load":
                    continue
                ok = _through_enum(chk, pf, schema, r, fld.type)
                chk.ob("R02.4", "%s.%s:read-through-enum" % (m, fname), ok, r.loc,
                       "%s.%s (enum %s) is not converted through the Python Enum mirroring it: "
                       "unknown numbers would be accepted and known ones stored as raw ints"
                       % (m, fname, fld.type), 2)


def _through_enum(chk: Check, pf: ProtoFlow, schema: Schema, r: Access, enum: str) -> bool:
    mirrors = _python_enums(chk, schema)
    classes = {c.qualname for c, e in mirrors.items() if e == enum}
    # direct: Enum(<read>)   or element flow: for f in <read>: ... Enum(f)
    names: Set[str] = set()
    par = getattr(r.node, "_parent", None)
    cur: ast.AST = r.node
    while par is not None and not isinstance(par, ast.FunctionDef):
        if isinstance(par, ast.Call) and cur in par.args:
            d = dotted(par.func)
            c = chk.repo.resolve_name(r.f.module, ".".join(d), r.f.cls) if d else None
            if c is None and d and len(d) >= 2:
                owner = chk.repo.resolve_name(r.f.module, ".".join(d[:-1]), r.f.cls) \
                    if d[0] != "cls" else r.f.cls
                if owner is not None:
                    c = owner.nested.get(d[-1])
                    if c is None:
                        al = owner.class_assigns.get(d[-1])
                        if isinstance(al, ast.Name):
                            c = chk.repo.resolve_name(owner.module, al.id, None)
            return c is not None and c.qualname in classes
        if isinstance(par, (ast.For, ast.comprehension)) and par.iter is cur:
            names = {n.id for n in ast.walk(par.target) if isinstance(n, ast.Name)}
            scope = par if isinstance(par, ast.For) else getattr(par, "_parent", None)
            for use in ast.walk(scope):
                if isinstance(use, ast.Call) and len(use.args) == 1 and isinstance(use.args[0], ast.Name) \
                        and use.args[0].id in names:
                    d = dotted(use.func)
                    c = chk.repo.resolve_name(r.f.module, ".".join(d), r.f.cls) if d else None
                    if c is not None and c.qualname in classes:
                        return True
                    # ... or through a local function of the reader that converts its argument
                    g = r.f.nested().get(use.func.id) if isinstance(use.func, ast.Name) else None
                    if g is not None and g.param_names():
                        p0 = g.param_names()[0]
                        for u2 in ast.walk(g.node):
                            if isinstance(u2, ast.Call) and len(u2.args) == 1 and isinstance(u2.args[0], ast.Name) \
                                    and u2.args[0].id == p0:
                                d2 = dotted(u2.func)
                                c2 = chk.repo.resolve_name(r.f.module, ".".join(d2), r.f.cls) if d2 else None
                                if c2 is not None and c2.qualname in classes:
                                    return True
            return False
        cur, par = par, getattr(par, "_parent", None)
    return False


# ---------------------------------------------------------------------------
# R02.4


def _python_enums(chk: Check, schema: Schema) -> Dict[ClassInfo, str]:
    out: Dict[ClassInfo, str] = {}
    for c in chk.repo.classes.values():
        if not c.is_subclass_of("enum.Enum"):
            continue
        enums: Set[str] = set()
        for v in c.class_assigns.values():
            if isinstance(v, ast.Call) and isinstance(v.func, ast.Attribute) and v.func.attr == "Value":
                d = dotted(v.func.value)
                if d and len(d) >= 2 and d[-2].endswith("_pb2"):
                    enums.add(d[-1])
        if len(enums) == 1:
            out[c] = enums.pop()
        elif len(enums) > 1:
            chk.ob("R02.4", "%s:mixed-enums" % c.qualname, False, c.loc(),
                   "%s takes its members from several proto enums: %s" % (c.qualname, sorted(enums)), 1)
    return out


def _enums(chk: Check, schema: Schema, pf: ProtoFlow) -> None:
    mirrors = _python_enums(chk, schema)
    chk.floor("R02.4", "Python enums mirroring the schema", len(mirrors), 7)
    total = 0
    for c, en in sorted(mirrors.items(), key=lambda kv: kv[0].qualname):
        if en not in schema.enums:
            chk.ob("R02.4", "%s:proto-enum" % c.qualname, False, c.loc(),
                   "%s mirrors %s, which proto/*.proto does not define" % (c.qualname, en), 1)
            continue
        consts = schema.enums[en].constants
        used: Dict[str, List[str]] = {}
        for member, v in c.class_assigns.items():
            if isinstance(v, ast.Call) and isinstance(v.func, ast.Attribute) and v.func.attr == "Value" \
                    and v.args:
                s = const_str(v.args[0])
                if s is None:
                    continue
                total += 1
                used.setdefault(s, []).append(member)
                ok = s in consts
                chk.ob("R02.4", "%s.%s:defined" % (c.qualname, member), ok, c.loc(v),
                       "%s.%s = %s.Value(%r), which the schema does not define (import fails, or "
                       "the member mirrors nothing)" % (c.qualname, member, en, s), 2)
                rx = ENUM_ALIAS.get(member)
                name_ok = (member == s) or (rx is not None and bool(rx.match(s))) or \
                    s == "Type_" + member
                chk.ob("R02.4", "%s.%s:name" % (c.qualname, member), name_ok, c.loc(v),
                       "%s.%s takes the number of proto constant %r: a different constant's number "
                       "would be written for this member" % (c.qualname, member, s), 2)
        for k in consts:
            chk.ob("R02.4", "%s:accepts(%s)" % (c.qualname, k), k in used, c.loc(),
                   "schema constant %s.%s has no Python member in %s: loading a file that uses it "
                   "raises ValueError" % (en, k, c.qualname), 2)
        for s, ms in used.items():
            chk.ob("R02.4", "%s:unique(%s)" % (c.qualname, s), len(ms) == 1, c.loc(),
                   "proto constant %s is referenced by several members %s (aliases)" % (s, ms), 1)
    chk.floor("R02.4", "Value(\"...\") references", total, 102)
    chk.floor("R02.4", "schema enum constants", sum(len(e.constants) for e in schema.enums.values()), 102)


# ---------------------------------------------------------------------------
# R02.5


def _const_bytes(e: ast.AST, f: FuncInfo, repo: Repo) -> Optional[object]:
    if isinstance(e, ast.Constant) and isinstance(e.value, bytes):
        return e.value
    if isinstance(e, ast.Name):
        v = f.module.assigns.get(e.id)
        if isinstance(v, ast.Constant) and isinstance(v.value, bytes):
            return v.value
    if isinstance(e, ast.Call) and isinstance(e.func, ast.Attribute) and e.func.attr == "to_bytes":
        recv = e.func.value
        size = e.args[0].value if e.args and isinstance(e.args[0], ast.Constant) else None
        order = None
        for k in e.keywords:
            if k.arg == "byteorder" and isinstance(k.value, ast.Constant):
                order = k.value.value
            if k.arg == "length" and isinstance(k.value, ast.Constant):
                size = k.value.value
        if len(e.args) > 1 and isinstance(e.args[1], ast.Constant):
            order = e.args[1].value
        return ("int", unparse(recv), size, order)
    if isinstance(e, ast.Call) and isinstance(e.func, ast.Attribute) and e.func.attr == "SerializeToString":
        return ("message", unparse(e.func.value))
    return None


def _header(chk: Check) -> None:
    repo = chk.repo
    ir = repo.cls("IR")
    save = ir.methods.get("save_protobuf_file")
    load = ir.methods.get("load_protobuf_file")
    if save is None or load is None:
        raise AnalysisError("anchor vanished: IR.save_protobuf_file / load_protobuf_file")
    chk.saw(save)
    chk.saw(load)
    stream = save.param_names()[1]
    writes = []
    for n in walk_no_nested(save.node):
        if isinstance(n, ast.Call) and isinstance(n.func, ast.Attribute) and n.func.attr == "write" \
                and attr_path(n.func.value) == (stream,) and n.args:
            writes.append((0, n._ord, _const_bytes(n.args[0], save, repo), n))
    writes.sort(key=lambda x: x[:2])
    seq = [w[2] for w in writes]
    # fold to: magic, zero, zero, version, message
    folded: List[object] = []
    for s in seq:
        if isinstance(s, bytes):
            for i in range(len(s)):
                folded.append(s[i:i + 1])
        else:
            folded.append(s)
    magic = b"".join(x for x in folded[:5] if isinstance(x, bytes))
    ok = (len(folded) == 9 and magic == b"GTIRB" and folded[5] == b"\0" and folded[6] == b"\0"
          and isinstance(folded[7], tuple) and folded[7][0] == "int"
          and folded[7][1] == "PROTOBUF_VERSION" and folded[7][2] == 1
          and isinstance(folded[8], tuple) and folded[8][0] == "message"
          and "_to_protobuf()" in folded[8][1])
    chk.ob("R02.5", "IR.save_protobuf_file:layout", ok, save.loc(),
           "the writer emits %s; the format is b'GTIRB', two zero bytes, the 1-byte "
           "PROTOBUF_VERSION, then the serialised IR message" % (seq,), 4)
    # the path variants open the named file with the builtin open in binary mode — "wb" truncates,
    # so what save leaves in the file is the header and one message, nothing else — and hand the
    # stream to the stream variant
    for nm_, mode_, callee_ in (("save_protobuf", "wb", "save_protobuf_file"), ("load_protobuf", "rb", "load_protobuf_file")):
        g_ = ir.methods.get(nm_)
        if g_ is None:
            continue
        chk.saw(g_)
        fn_param = [p_ for p_ in g_.param_names() if p_ not in ("self", "cls")][:1]
        opens = [c for c in ast.walk(g_.node) if isinstance(c, ast.Call) and isinstance(c.func, ast.Name)
                 and c.func.id == "open"]
        ok_open = len(opens) == 1 and len(opens[0].args) >= 2 and fn_param and \
            attr_path(opens[0].args[0]) == (fn_param[0],) and isinstance(opens[0].args[1], ast.Constant) \
            and opens[0].args[1].value == mode_ and not opens[0].keywords
        other_io = [c for c in ast.walk(g_.node) if isinstance(c, ast.Call) and (dotted(c.func) or ("",))[0] in ("os", "io", "pathlib", "tempfile", "shutil")]
        delegates = any(isinstance(c, ast.Call) and isinstance(c.func, ast.Attribute) and c.func.attr == callee_
                        for c in ast.walk(g_.node))
        chk.ob("R02.5", "IR.%s:opens-%s" % (nm_, mode_), ok_open and not other_io and delegates, g_.loc(),
               "IR.%s must open the named file with open(<name>, %r) and pass the stream to %s; it uses %s"
               % (nm_, mode_, callee_, unparse((other_io or opens or [g_.node])[0])[:60]), 2)
    # reader: read sizes 5,1,1,1 then the rest; first compared with the magic, fourth with version
    rstream = load.param_names()[0]
    reads = []
    for n in walk_no_nested(load.node):
        if isinstance(n, ast.Call) and isinstance(n.func, ast.Attribute) and n.func.attr == "read" \
                and attr_path(n.func.value) == (rstream,):
            size: object = "rest"
            if n.args:
                a = n.args[0]
                if isinstance(a, ast.Constant):
                    size = a.value
                elif isinstance(a, ast.Call) and attr_path(a.func) == ("len",) and a.args:
                    b = _const_bytes(a.args[0], load, repo)
                    size = len(b) if isinstance(b, bytes) else unparse(a)
                else:
                    size = unparse(a)
            reads.append((0, n._ord, size, n))
    reads.sort(key=lambda x: x[:2])
    sizes = [r[2] for r in reads]
    ok = sizes == [5, 1, 1, 1, "rest"]
    chk.ob("R02.5", "IR.load_protobuf_file:read-sizes", ok, load.loc(),
           "the reader consumes %s; the header is 5+1+1+1 bytes followed by the message" % (sizes,), 3)
    al = local_aliases(load.node)
    if ok:
        # which reads are compared
        def compared(read_call: ast.Call, with_name: str) -> bool:
            var = None
            par = getattr(read_call, "_parent", None)
            while par is not None and not isinstance(par, ast.stmt):
                if isinstance(par, ast.Compare) and len(par.ops) == 1 and \
                        isinstance(par.ops[0], (ast.NotEq, ast.Eq)) and \
                        with_name in {x.id for x in ast.walk(par) if isinstance(x, ast.Name)}:
                    return True         # compared where it is read
                par = getattr(par, "_parent", None)
            if isinstance(par, ast.Assign) and isinstance(par.targets[0], ast.Name):
                var = par.targets[0].id
            if var is None:
                return False
            for n in walk_no_nested(load.node):
                if isinstance(n, ast.Compare) and len(n.ops) == 1 and isinstance(n.ops[0], (ast.NotEq, ast.Eq)):
                    names = {x.id for x in ast.walk(n) if isinstance(x, ast.Name)}
                    if var in names and with_name in names:
                        return True
            return False
        chk.ob("R02.5", "IR.load_protobuf_file:magic-is-first-read",
               compared(reads[0][3], "GTIRB_MAGIC_CHARS"), load.loc(reads[0][3]),
               "the first five bytes are not the ones compared with the magic", 2)
        chk.ob("R02.5", "IR.load_protobuf_file:version-is-eighth-byte",
               compared(reads[3][3], "PROTOBUF_VERSION"), load.loc(reads[3][3]),
               "the eighth byte is not the one compared with PROTOBUF_VERSION", 2)
    # documentation and version template
    md = repo.read_text("PROTOBUF.md")
    rng = re.findall(r"^\s*-\s*Bytes?\s+(\d+)(?:-(\d+))?\s+(.*)$", md, re.M)
    layout = [(int(a), int(b) if b else int(a), t) for a, b, t in rng]
    doc_ok = len(layout) >= 3 and layout[0][:2] == (0, 4) and "GTIRB" in layout[0][2] \
        and layout[1][:2] == (5, 6) and layout[2][:2] == (7, 7)
    chk.ob("R02.5", "PROTOBUF.md:layout", doc_ok, "PROTOBUF.md:1",
           "PROTOBUF.md no longer documents bytes 0-4 GTIRB / 5-6 reserved / 7 version (%s)" % layout, 2)
    tmpl = repo.read_text("python/version.py.in")
    t_ok = bool(re.search(r"^PROTOBUF_VERSION\s*=\s*@GTIRB_PROTOBUF_VERSION@", tmpl, re.M))
    cm = repo.read_text("CMakeLists.txt")
    c_ok = bool(re.search(r"VERSION_PROTOBUF", cm)) and bool(re.search(r"GTIRB_PROTOBUF_VERSION", cm))
    v = protobuf_version(repo)
    chk.ob("R02.5", "PROTOBUF_VERSION:templated-from-version.txt", t_ok and c_ok and 0 < v < 256,
           "python/version.py.in:1",
           "PROTOBUF_VERSION is no longer templated from version.txt's VERSION_PROTOBUF (=%d), or "
           "it does not fit one byte" % v, 2)
    mg = ir.module.assigns.get("GTIRB_MAGIC_CHARS")
    chk.ob("R02.5", "GTIRB_MAGIC_CHARS", isinstance(mg, ast.Constant) and mg.value == b"GTIRB",
           ir.module.relpath + ":1", "GTIRB_MAGIC_CHARS must be b'GTIRB'", 1)


def _paths_of(e: ast.AST) -> Set[Tuple[str, ...]]:
    out: Set[Tuple[str, ...]] = set()
    for n in ast.walk(e):
        if isinstance(n, (ast.Attribute, ast.Name)):
            p = attr_path(n)
            if p:
                out.add(p)
    return out


def _write_paths(chk: Check, schema: Schema, pf: ProtoFlow, msgs: List[str]) -> None:
    """R02.1 (paths): a field that a writer assigns at all is assigned on every path that
    produces the message, except on the outcome of a test about the very attribute it is
    written from (optional values) or, for a oneof, about any alternative's source."""
    by_func: Dict[str, List[Access]] = {}
    for w in pf.writes:
        if w.msg in msgs and w.how not in ("clear",):
            by_func.setdefault(w.f.qualname, []).append(w)
    n = 0
    for fq, ws in sorted(by_func.items()):
        f = ws[0].f
        cfg = CFG(f.node)
        al = local_aliases(f.node)
        groups: Dict[Tuple[str, str, str], List[Access]] = {}
        for w in ws:
            fld = schema.messages[w.msg].fields[w.field]
            base = unparse(w.base) if w.base is not None else "?"
            # sub-message writes (x.label.type = ..) belong to the field they fill
            gname = "oneof:" + fld.oneof if fld.oneof else w.field
            groups.setdefault((w.msg, gname, base), []).append(w)
        for (m, gname, base), gws in sorted(groups.items()):
            nodes = {cfg.node_of(w.node) for w in gws}
            # region: the loop iteration that creates the message object, else the function
            src, dst = cfg.entry, cfg.exit
            cur = getattr(gws[0].node, "_parent", None)
            root = gws[0].base
            while isinstance(root, (ast.Attribute, ast.Subscript)):
                root = root.value
            bname = root.id if isinstance(root, ast.Name) else None
            while cur is not None and cur is not f.node:
                if isinstance(cur, ast.For) and bname is not None and any(
                        isinstance(x, (ast.Assign, ast.AnnAssign)) and any(
                            isinstance(t, ast.Name) and t.id == bname
                            for t in (x.targets if isinstance(x, ast.Assign) else [x.target]))
                        for x in ast.walk(cur)):
                    head = cfg.by_ast[id(cur)]
                    bi = [s_ for s_ in cfg.g.successors(head)
                          if cfg.info[s_].kind == "branch" and cfg.info[s_].value]
                    src, dst = bi[0], head
                    break
                cur = getattr(cur, "_parent", None)
            # a write inside an inner loop is reached whenever that loop is (zero iterations =
            # empty source collection): the loop head stands for it
            for w in gws:
                up = getattr(w.node, "_parent", None)
                while up is not None and up is not f.node:
                    if isinstance(up, (ast.For, ast.While)) and id(up) in cfg.by_ast and \
                            cfg.by_ast[id(up)] != dst:
                        nodes.add(cfg.by_ast[id(up)])
                    up = getattr(up, "_parent", None)
            # excuses: outcomes of tests about the source of the written value
            sources: Set[Tuple[str, ...]] = set()
            for w in gws:
                if w.value is not None:
                    v = w.value
                    if isinstance(v, ast.Name) and v.id in al:
                        v = al[v.id]
                    sources |= _paths_of(v)
                if w.how == "sub":
                    for w2 in ws:
                        if w2.value is not None and cfg.node_of(w2.node) == cfg.node_of(w.node):
                            sources |= _paths_of(w2.value)
            sources = {p for p in sources if p not in (("self",), ("cls",)) and len(p) >= 1}
            excused: Set[int] = set()
            for tn, i in cfg.info.items():
                if i.kind != "test" or i.ast is None:
                    continue
                tps = _paths_of(i.ast)
                # a test on a local that stands for an attribute is a test on that attribute
                for nm_ in [x.id for x in ast.walk(i.ast) if isinstance(x, ast.Name) and x.id in al]:
                    tps |= _paths_of(al[nm_])
                tps = {p for p in tps if p not in (("self",), ("cls",), ("isinstance",))}
                related = any(any(sp[:len(tp)] == tp for sp in sources) for tp in tps if len(tp) >= 1
                              and not (len(tp) == 1 and tp[0] in ("self",)))
                if related:
                    for b in cfg.g.successors(tn):
                        if cfg.info[b].kind == "branch":
                            excused.add(b)
            # only the outcome that does NOT lead to the write is an excuse
            excused = {b for b in excused if not any(nd in cfg.reachable(b, {dst}) for nd in nodes)}
            wit = cfg.path_avoiding(src, dst, nodes | excused)
            n += 1
            chk.ob("R02.1", "%s.%s@%s:on-every-path" % (m, gname, fq), wit is None, gws[0].loc,
                   "%s writes %s.%s only on some paths: on the path %s the field keeps its default "
                   "although nothing about its source value was tested"
                   % (fq, m, gname, " -> ".join(cfg.describe_path(wit)) if wit else "-"), 3)
    chk.floor("R02.1", "field groups checked for path coverage", n, 38)


def _iter_source_ok(it: ast.AST, want: str, al: Dict[str, ast.AST]) -> Tuple[bool, str]:
    """is ``it`` the whole collection <obj>.<want> (optionally .items()/.values()/.keys(),
    sorted(...), list(...))?"""
    e = it
    if isinstance(e, ast.Name) and e.id in al:
        e = al[e.id]
    while isinstance(e, ast.Call) and attr_path(e.func) in (("sorted",), ("list",), ("tuple",), ("iter",)) and e.args:
        e = e.args[0]
    if isinstance(e, ast.Call) and isinstance(e.func, ast.Attribute) and \
            e.func.attr in ("items", "values", "keys") and not e.args:
        e = e.func.value
    if isinstance(e, ast.Call) and isinstance(e.func, ast.Attribute) and e.func.attr == "_to_protobuf":
        return True, ""       # a sub-writer yields its own elements (CFG edges)
    if isinstance(e, ast.Call) and isinstance(e.func, ast.Attribute) and e.func.attr == "edges":
        return True, ""
    p = attr_path(e)
    if p and p[-1] == want and len(p) >= 2:
        return True, ""
    return False, unparse(it)[:60]


def _whole_collections(chk: Check, schema: Schema, pf: ProtoFlow, msgs: List[str]) -> None:
    """R02.2: a repeated / map field is filled from the WHOLE attribute it mirrors: the
    iteration source is <obj>.<pi(f)> itself (or its items()), unfiltered - not a lookup or a
    filtered comprehension"""
    n = 0
    for w in pf.writes:
        if w.msg not in msgs or w.how not in ("extend", "mapitem", "append", "add"):
            continue
        fld = schema.messages[w.msg].fields[w.field]
        if fld.label not in ("repeated", "map") or (w.msg, w.field) in WRITE_EXEMPT:
            continue
        want = PI.get((w.msg, w.field), w.field)
        al = local_aliases(w.f.node)
        sources: List[Tuple[ast.AST, bool]] = []     # (iteration expr, filtered?)
        v = w.value
        if isinstance(v, ast.Name) and v.id in al:
            v = al[v.id]
        if isinstance(v, (ast.GeneratorExp, ast.ListComp, ast.SetComp)) and w.how != "mapitem":
            g = v.generators[0]
            sources.append((g.iter, bool(g.ifs) or len(v.generators) > 1))
        elif w.how != "mapitem" and v is not None:
            sources.append((v, False))
        cur = getattr(w.node, "_parent", None)
        filtered = False
        prev: ast.AST = w.node
        while cur is not None and cur is not w.f.node:
            if isinstance(cur, ast.If) and w.how == "mapitem":
                # an if around the store filters entries (isinstance dispatch on the value is fine)
                t = unparse(cur.test)
                if "isinstance(" not in t:
                    filtered = True
            if isinstance(cur, ast.For):
                if w.how == "mapitem":
                    sources.append((cur.iter, filtered or any(
                        isinstance(x, (ast.Continue, ast.Break)) for x in ast.walk(cur))))
                break
            prev, cur = cur, getattr(cur, "_parent", None)
        if not sources:
            continue
        n += 1
        it, flt = sources[-1]
        ok, why = _iter_source_ok(it, want, al)
        chk.ob("R02.2", "%s.%s@%s:whole-collection" % (w.msg, w.field, w.f.qualname), ok and not flt, w.loc,
               "%s.%s must be filled from the whole of <obj>.%s; %s iterates %s%s: members outside that "
               "selection are silently not written" % (w.msg, w.field, want, w.f.qualname,
                                                        why or unparse(it)[:60], " with a filter" if flt else ""), 3)
        # an ordered collection is written in its own order: later modules may refer to earlier
        # ones (the loader resolves references module by module)
        if (w.msg, w.field) in ORDERED_FIELDS:
            reordered = [x for x in ast.walk(it) if isinstance(x, ast.Call) and
                         (dotted(x.func) or ("",))[-1] in ("sorted", "reversed", "set", "frozenset")]
            chk.ob("R02.2", "%s.%s@%s:list-order" % (w.msg, w.field, w.f.qualname), not reordered, w.loc,
                   "%s.%s mirrors an ordered list; %s writes it through %s: the saved order differs from "
                   "the list's, and a module that refers to an earlier one may be loaded first"
                   % (w.msg, w.field, w.f.qualname, unparse(reordered[0].func) if reordered else ""), 2)
    chk.floor("R02.2", "repeated/map field writers", n, 6)


ORDERED_FIELDS = {("IR", "modules")}


def _fresh_objects(chk: Check, schema: Schema, pf: ProtoFlow) -> None:
    """R02.3: every entry of a repeated/map field yields its own freshly decoded object: in a
    reader loop the variable that is stored is bound once, straight from the decoding call"""
    for r in pf.reads:
        if r.how != "load" or r.msg not in schema.messages:
            continue
        fld = schema.messages[r.msg].fields.get(r.field)
        if fld is None or fld.label != "map" or fld.type not in schema.messages:
            continue
        # for <k>, <v> in <read>.items():
        par = getattr(r.node, "_parent", None)
        loop = None
        cur = r.node
        while cur is not None and not isinstance(cur, ast.FunctionDef):
            if isinstance(cur, ast.For) and any(x is r.node for x in ast.walk(cur.iter)):
                loop = cur
                break
            cur = getattr(cur, "_parent", None)
        if loop is None or not isinstance(loop.target, ast.Tuple) or len(loop.target.elts) != 2:
            continue
        kv = [e.id if isinstance(e, ast.Name) else None for e in loop.target.elts]
        stores = [s_ for s_ in ast.walk(loop) if isinstance(s_, ast.Assign)
                  and isinstance(s_.targets[0], ast.Subscript) and attr_path(s_.targets[0].slice) == (kv[0],)]
        for st in stores:
            v = st.value
            if not isinstance(v, ast.Name):
                continue
            binds = [a for a in ast.walk(loop) if isinstance(a, (ast.Assign, ast.AugAssign, ast.AnnAssign))
                     and any(isinstance(t, ast.Name) and t.id == v.id
                             for t in (a.targets if isinstance(a, ast.Assign) else [a.target]))]
            ok = len(binds) == 1 and isinstance(binds[0], ast.Assign) and isinstance(binds[0].value, ast.Call) \
                and any(isinstance(x, ast.Name) and x.id == kv[1] for x in ast.walk(binds[0].value))
            chk.ob("R02.3", "%s.%s@%s:fresh-object-per-entry" % (r.msg, r.field, r.f.qualname), ok, r.f.loc(st),
                   "the object stored for each %s.%s entry must be the one freshly decoded from that "
                   "entry; '%s' is bound %d time(s) in the loop (%s): entries can end up sharing one "
                   "object" % (r.msg, r.field, v.id, len(binds),
                               "; ".join(unparse(b)[:50] for b in binds)), 2)


def _write_conditions(chk: Check, schema: Schema, pf: ProtoFlow, msgs: List[str]) -> int:
    """R02.2: a field is written whenever the object has a value for it.  The only conditions a
    writer may put in front of a field write are presence tests (``x is not None``) and kind
    dispatch (``isinstance``); any other condition silently drops state for some objects."""
    n = 0
    flows: Dict[str, CFG] = {}
    for m in msgs:
        msg = schema.messages.get(m)
        if msg is None:
            continue
        for fname in msg.fields:
            if (m, fname) in (("AuxData", "data"), ("AuxData", "type_name")):
                continue        # the raw-reuse typestate rule (C14) decides these
            for w in pf.written(m, fname):
                f = w.f
                if f.name not in ("_to_protobuf", "_write_protobuf_aux_data") and "to_proto" not in f.name:
                    continue
                cfg = flows.get(f.qualname)
                if cfg is None:
                    cfg = flows[f.qualname] = CFG(f.node)
                try:
                    node = cfg.node_of(w.node)
                except AnalysisError:
                    continue
                bad = []
                for t, v in cfg.facts_at(node):
                    if isinstance(t, ast.stmt):
                        continue            # "the loop has another element"
                    if isinstance(t, ast.Compare) and len(t.ops) == 1 and isinstance(t.ops[0], (ast.Is, ast.IsNot)) \
                            and any(isinstance(x, ast.Constant) and x.value is None for x in (t.left, t.comparators[0])):
                        continue
                    if isinstance(t, ast.Call) and attr_path(t.func) == ("isinstance",):
                        continue
                    if attr_path(t) is not None and v:
                        continue            # ``if label:`` — presence by truthiness (R03.3 keeps
                        #                      the model classes from being falsy)
                    bad.append("%s is %s" % (unparse(t)[:50], v))
                n += 1
                chk.ob("R02.2", "%s.%s@%s:written-unconditionally" % (m, fname, f.qualname), not bad, w.loc,
                       "%s writes %s.%s only when %s: objects for which that does not hold lose the "
                       "field in the saved message" % (f.qualname, m, fname, " and ".join(bad)), 2)
    return n


def writers_total(chk: Check, rule: str) -> int:
    """every IR the model allows can be saved: a writer refuses nothing but an object of a kind
    it has no message for (the else of an isinstance dispatch).  A ``raise`` under any other
    condition turns some state the API accepted into a file that cannot be written."""
    n = 0
    for f in chk.repo.all_functions():
        g: Optional[FuncInfo] = f
        writer = False
        while g is not None:
            if g.name in ("_to_protobuf", "_write_protobuf_aux_data"):
                writer = True
            g = g.outer
        if not writer:
            continue
        raises = [x for x in walk_no_nested(f.node) if isinstance(x, ast.Raise)]
        n += 1
        if not raises:
            continue
        chk.saw(f)
        cfg = CFG(f.node)
        for r in raises:
            try:
                node = cfg.node_of(r)
            except AnalysisError:
                continue
            bad = []
            for t, v in cfg.facts_at(node):
                if isinstance(t, ast.stmt):
                    continue
                if isinstance(t, ast.Call) and attr_path(t.func) == ("isinstance",):
                    continue
                bad.append("%s is %s" % (unparse(t)[:60], v))
            chk.ob(rule, "%s:raise(%s):only-for-unknown-kinds" % (f.qualname, unparse(r.exc)[:30] if r.exc else ""),
                   not bad, f.loc(r),
                   "%s refuses to write when %s: an IR the API let the client build cannot be saved"
                   % (f.qualname, " and ".join(bad)), 2)
    return n


def _submessage_presence(chk: Check, schema: Schema, pf: ProtoFlow, msgs: List[str]) -> int:
    """R02.3: whether an optional sub-message is present is decided by HasField / WhichOneof,
    never by its content: a present sub-message whose fields all hold their default value has no
    listed fields, zero size and (pure-python backend) compares equal to an empty one"""
    n = 0
    for m in msgs:
        msg = schema.messages.get(m)
        if msg is None:
            continue
        for fname, fld in msg.fields.items():
            if fld.label or fld.type not in schema.messages:
                continue
            for r in pf.read(m, fname):
                if r.how != "load":
                    continue
                # is this read (or something computed from it) what a test decides on?
                cur = r.node
                par = getattr(cur, "_parent", None)
                in_test = False
                while par is not None and not isinstance(par, ast.stmt):
                    if isinstance(par, (ast.IfExp,)) and par.test is cur:
                        in_test = True
                        break
                    if isinstance(par, ast.Attribute) and par.value is cur and par.attr not in (
                            "ListFields", "ByteSize", "SerializeToString", "IsInitialized"):
                        break       # a field of the sub-message is read, not its presence
                    cur, par = par, getattr(par, "_parent", None)
                if not in_test and isinstance(par, (ast.If, ast.While)) and par.test is cur:
                    in_test = True
                if not in_test and isinstance(par, ast.Assign) and len(par.targets) == 1 and \
                        isinstance(par.targets[0], ast.Name) and par.value is r.node:
                    # ``lbl = edge.label`` / ``if lbl.ListFields():``
                    nm = par.targets[0].id
                    for t in walk_no_nested(r.f.node):
                        test = t.test if isinstance(t, (ast.If, ast.IfExp, ast.While)) else None
                        if test is None:
                            continue
                        for x in ast.walk(test):
                            if isinstance(x, ast.Name) and x.id == nm:
                                px = getattr(x, "_parent", None)
                                if not (isinstance(px, ast.Attribute) and px.attr not in (
                                        "ListFields", "ByteSize", "SerializeToString", "IsInitialized")):
                                    in_test = True
                n += 1
                chk.ob("R02.3", "%s.%s@%s:presence-by-HasField" % (m, fname, r.f.qualname), not in_test, r.loc,
                       "%s decides whether %s.%s is present from its content (%s): a present "
                       "sub-message with all-default fields would read as absent; use HasField('%s')"
                       % (r.f.qualname, m, fname, unparse(par)[:60] if par is not None else "", fname), 2)
    return n


def _presence_flag(chk: Check, pf: ProtoFlow) -> None:
    """R02.3: address presence on load is decided by has_address alone"""
    for r in pf.read("ByteInterval", "has_address"):
        if r.how != "load":
            continue
        par = getattr(r.node, "_parent", None)
        ok = isinstance(par, (ast.IfExp, ast.If)) and par.test is r.node
        if isinstance(par, ast.UnaryOp) and isinstance(par.op, ast.Not):
            gp = getattr(par, "_parent", None)
            ok = isinstance(gp, (ast.IfExp, ast.If)) and gp.test is par
        chk.ob("R02.3", "ByteInterval.has_address@%s:sole-presence-test" % r.f.qualname, ok, r.loc,
               "whether a loaded interval has an address must be decided by the has_address field "
               "alone, got %s" % unparse(par)[:70], 2)


def scalars_pass_through(chk: Check, rule: str) -> int:
    """what a writer stores in a field is the attribute's value and what a reader hands to the
    model is the field's value: no arithmetic in between (masking, sign conversion, scaling).  A
    pair of inverse conversions keeps save/load the identity and still writes a file no other
    implementation reads the same way."""
    from .c01 import _is_reader
    ARITH = (ast.BitAnd, ast.BitOr, ast.BitXor, ast.LShift, ast.RShift, ast.Sub, ast.Mult, ast.FloorDiv,
             ast.Div, ast.Pow, ast.Add, ast.Mod)
    n = 0
    for f in chk.repo.all_functions():
        g: Optional[FuncInfo] = f
        role = None
        while g is not None:
            if g.name in ("_to_protobuf", "_write_protobuf_aux_data"):
                role = "writer"
            g = g.outer
        if role is None and _is_reader(f) and f.name not in ("load_protobuf_file",):
            role = "reader"
        if role is None:
            continue
        n += 1
        tainted: Set[str] = {p_ for p_ in f.param_names() if p_ in ("self",) or p_.startswith("proto")}
        if f.outer is not None:
            tainted |= {p_ for p_ in f.outer.param_names() if p_ in ("self",) or p_.startswith("proto")}
        for _ in range(4):
            for st in ast.walk(f.node):
                tgts: List[ast.AST] = []
                val = None
                if isinstance(st, ast.Assign):
                    tgts, val = list(st.targets), st.value
                elif isinstance(st, (ast.AnnAssign, ast.AugAssign)) and st.value is not None:
                    tgts, val = [st.target], st.value
                elif isinstance(st, ast.For):
                    tgts, val = [st.target], st.iter
                if val is not None and any(isinstance(x, ast.Name) and x.id in tainted for x in ast.walk(val)):
                    for t in tgts:
                        for x in ast.walk(t):
                            if isinstance(x, ast.Name) and not isinstance(x.ctx, ast.Load):
                                tainted.add(x.id)
        in_raise = {id(x) for r in ast.walk(f.node) if isinstance(r, ast.Raise) for x in ast.walk(r)}
        for x in walk_no_nested(f.node):
            op = None
            operands: List[ast.AST] = []
            if isinstance(x, ast.BinOp) and isinstance(x.op, ARITH):
                op, operands = x.op, [x.left, x.right]
            elif isinstance(x, ast.AugAssign) and isinstance(x.op, ARITH):
                op, operands = x.op, [x.target, x.value]
            elif isinstance(x, ast.UnaryOp) and isinstance(x.op, (ast.Invert, ast.USub)):
                op, operands = x.op, [x.operand]
            if op is None or id(x) in in_raise:
                continue
            if isinstance(op, (ast.Add, ast.Mod)) and any(
                    isinstance(o, (ast.Constant, ast.JoinedStr)) and isinstance(getattr(o, "value", ""), str) for o in operands):
                continue        # text
            if not any(isinstance(y, ast.Name) and y.id in tainted for o in operands for y in ast.walk(o)):
                continue
            chk.saw(f)
            chk.ob(rule, "%s:scalar-passthrough(%s)" % (f.qualname, unparse(x)[:40]), False, f.loc(x),
                   "%s computes with a value on its way %s (%s): fields carry the attribute values themselves"
                   % (f.qualname, "into the message" if role == "writer" else "out of the message", unparse(x)[:60]), 2)
    return n
