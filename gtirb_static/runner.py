"""One property's rules on one tree -> a Check.  An AnalysisError raised by a rule (an anchor it
needs is gone, a construct is outside its fragment) becomes an undecided obligation: violations
decided before it still stand (exit 1), otherwise the run ends as "cannot decide" (exit 2)."""
from __future__ import annotations

import importlib

from .model import AnalysisError, Repo
from .report import Check


def run_rules(prop: str, repo: Repo, tier: str = "quick") -> Check:
    mod = importlib.import_module("gtirb_static.rules.%s" % prop.lower())
    chk = Check(prop, repo, tier)
    try:
        mod.run(chk)
    except AnalysisError as e:
        chk.cannot_decide("R00.0", "analysis:%s" % str(e)[:80], "", str(e))
    from .rules.wellformed import check as wellformed
    try:
        wellformed(chk)
    except AnalysisError as e:
        chk.cannot_decide("R00.0", "analysis:%s" % str(e)[:80], "", str(e))
    return chk
