"""E1 source model: parsed modules, classes (nested included), MRO, members.

Nothing here imports or executes gtirb.  Everything is derived from the
``ast`` of ``$VERIF_REPO/python/gtirb/*.py`` on every run.
"""
from __future__ import annotations

import ast
import os
from pathlib import Path
from typing import Dict, Iterable, Iterator, List, Optional, Tuple, Union


class AnalysisError(Exception):
    """The analysis itself cannot proceed (vanished anchor, parse failure,
    construct outside the fragment a rule understands).  Exit status 2."""


def repo_root() -> Path:
    return Path(os.environ.get("VERIF_REPO", "/repo"))


# external bases the package inherits from, mapped to a canonical name
_EXTERNAL = {
    "MutableSet": "abc.MutableSet",
    "MutableSequence": "abc.MutableSequence",
    "MutableMapping": "abc.MutableMapping",
    "Generic": "typing.Generic",
    "Protocol": "typing.Protocol",
    "NamedTuple": "typing.NamedTuple",
    "Enum": "enum.Enum",
    "Exception": "builtins.Exception",
    "bytes": "builtins.bytes",
    "object": "builtins.object",
}


def dotted(expr: ast.AST) -> Optional[Tuple[str, ...]]:
    """``a.b.c`` -> ('a','b','c'); subscripts on the way are looked through
    (``typing.MutableSet[T]`` -> ('typing','MutableSet'))."""
    parts: List[str] = []
    e = expr
    while True:
        if isinstance(e, ast.Attribute):
            parts.append(e.attr)
            e = e.value
        elif isinstance(e, ast.Subscript):
            # only type subscripts reach here in base lists
            e = e.value
        elif isinstance(e, ast.Name):
            parts.append(e.id)
            break
        else:
            return None
    return tuple(reversed(parts))


def attr_path(expr: ast.AST) -> Optional[Tuple[str, ...]]:
    """Strict attribute path (no subscripts, no calls)."""
    parts: List[str] = []
    e = expr
    while True:
        if isinstance(e, ast.Attribute):
            parts.append(e.attr)
            e = e.value
        elif isinstance(e, ast.Name):
            parts.append(e.id)
            break
        else:
            return None
    return tuple(reversed(parts))


class FuncInfo:
    def __init__(self, node: ast.FunctionDef, module: "ModuleInfo",
                 cls: Optional["ClassInfo"], outer: Optional["FuncInfo"] = None):
        self.node = node
        self.module = module
        self.cls = cls
        self.outer = outer
        self.name = node.name
        decos = []
        for d in node.decorator_list:
            p = dotted(d)
            decos.append(".".join(p) if p else ast.dump(d))
        self.decorators = decos
        self.is_classmethod = "classmethod" in decos
        self.is_staticmethod = "staticmethod" in decos
        self.is_property = "property" in decos
        self.is_setter = any(d.endswith(".setter") for d in decos)
        self.is_overload = any(d.endswith("overload") for d in decos)

    @property
    def qualname(self) -> str:
        if self.outer is not None:
            return self.outer.qualname + "." + self.name
        if self.cls is not None:
            return self.cls.qualname + "." + self.name
        return self.module.name + "." + self.name

    @property
    def file(self) -> str:
        return self.module.relpath

    @property
    def params(self) -> List[ast.arg]:
        a = self.node.args
        return list(a.posonlyargs) + list(a.args) + list(a.kwonlyargs)

    def param_names(self) -> List[str]:
        return [p.arg for p in self.params]

    @property
    def self_name(self) -> Optional[str]:
        if self.cls is None or self.is_staticmethod or self.outer is not None:
            return None
        ps = self.node.args.posonlyargs + self.node.args.args
        return ps[0].arg if ps else None

    def nested(self) -> Dict[str, "FuncInfo"]:
        out = {}
        for st in ast.walk(self.node):
            if isinstance(st, ast.FunctionDef) and st is not self.node:
                # direct nesting only matters here; deeper ones are found too
                out[st.name] = FuncInfo(st, self.module, self.cls, self)
        return out

    def loc(self, node: Optional[ast.AST] = None) -> str:
        n = node if node is not None and hasattr(node, "lineno") else self.node
        return "%s:%d" % (self.file, n.lineno)

    def __repr__(self) -> str:
        return "<func %s>" % self.qualname


class PropInfo:
    def __init__(self, name: str):
        self.name = name
        self.getter: Optional[FuncInfo] = None
        self.setter: Optional[FuncInfo] = None


class IndexedAttr:
    """``name = _IndexedAttribute[T]()(lambda self: self.<parent>)``"""

    def __init__(self, name: str, node: ast.Assign, parent_expr: ast.AST,
                 lambda_arg: str):
        self.name = name
        self.node = node
        self.parent_expr = parent_expr
        self.lambda_arg = lambda_arg

    @property
    def parent_path(self) -> Optional[Tuple[str, ...]]:
        p = attr_path(self.parent_expr)
        if p and p[0] == self.lambda_arg:
            return p[1:]
        return None

    @property
    def storage(self) -> str:
        return "_" + self.name


class ClassInfo:
    def __init__(self, node: ast.ClassDef, module: "ModuleInfo",
                 outer: Optional["ClassInfo"]):
        self.node = node
        self.module = module
        self.outer = outer
        self.name = node.name
        self.methods: Dict[str, FuncInfo] = {}
        self.props: Dict[str, PropInfo] = {}
        self.class_assigns: Dict[str, ast.AST] = {}
        self.class_annots: Dict[str, ast.AST] = {}
        self.indexed: Dict[str, IndexedAttr] = {}
        self.nested: Dict[str, "ClassInfo"] = {}
        self.base_exprs = list(node.bases)
        self.bases: List[Union["ClassInfo", str]] = []
        for st in node.body:
            if isinstance(st, ast.FunctionDef):
                fi = FuncInfo(st, module, self)
                if fi.is_overload:
                    continue
                if fi.is_property:
                    self.props.setdefault(st.name, PropInfo(st.name)).getter = fi
                elif fi.is_setter:
                    self.props.setdefault(st.name, PropInfo(st.name)).setter = fi
                else:
                    self.methods[st.name] = fi
            elif isinstance(st, ast.Assign) and len(st.targets) == 1 and \
                    isinstance(st.targets[0], ast.Name):
                nm = st.targets[0].id
                self.class_assigns[nm] = st.value
                ia = _indexed_attr(nm, st)
                if ia is not None:
                    self.indexed[nm] = ia
            elif isinstance(st, ast.AnnAssign) and isinstance(st.target, ast.Name):
                self.class_annots[st.target.id] = st.annotation
                if st.value is not None:
                    self.class_assigns[st.target.id] = st.value

    @property
    def qualname(self) -> str:
        return (self.outer.qualname + "." if self.outer else "") + self.name

    @property
    def file(self) -> str:
        return self.module.relpath

    def loc(self, node: Optional[ast.AST] = None) -> str:
        n = node if node is not None and hasattr(node, "lineno") else self.node
        return "%s:%d" % (self.file, n.lineno)

    # -- hierarchy --------------------------------------------------------
    def mro(self) -> List[Union["ClassInfo", str]]:
        def lin(c: Union[ClassInfo, str]) -> List[Union[ClassInfo, str]]:
            if isinstance(c, str):
                return [c] + _EXTERNAL_MRO.get(c, [])
            seqs = [lin(b) for b in c.bases] + [list(c.bases)]
            res: List[Union[ClassInfo, str]] = [c]
            seqs = [s for s in seqs if s]
            while seqs:
                for s in seqs:
                    h = s[0]
                    if not any(h in t[1:] for t in seqs):
                        break
                else:
                    raise AnalysisError("inconsistent MRO for %s" % c.qualname)
                res.append(h)
                seqs = [[x for x in s if x is not h and x != h] for s in seqs]
                seqs = [s for s in seqs if s]
            return res
        return lin(self)

    def mro_classes(self) -> List["ClassInfo"]:
        return [c for c in self.mro() if isinstance(c, ClassInfo)]

    def external_bases(self) -> List[str]:
        return [c for c in self.mro() if isinstance(c, str)]

    def is_subclass_of(self, other: Union["ClassInfo", str]) -> bool:
        return any(c is other or c == other for c in self.mro())

    def find_method(self, name: str) -> Optional[FuncInfo]:
        for c in self.mro_classes():
            if name in c.methods:
                return c.methods[name]
        return None

    def find_prop(self, name: str) -> Optional[PropInfo]:
        for c in self.mro_classes():
            if name in c.props:
                return c.props[name]
        return None

    def find_indexed(self, name: str) -> Optional[IndexedAttr]:
        for c in self.mro_classes():
            if name in c.indexed:
                return c.indexed[name]
        return None

    def defines(self, name: str) -> bool:
        return name in self.methods or name in self.props or \
            name in self.class_assigns

    def __repr__(self) -> str:
        return "<class %s>" % self.qualname


_EXTERNAL_MRO = {
    "abc.MutableSet": ["abc.Set", "abc.Collection"],
    "abc.MutableSequence": ["abc.Sequence", "abc.Collection"],
    "abc.MutableMapping": ["abc.Mapping", "abc.Collection"],
}


def _indexed_attr(name: str, st: ast.Assign) -> Optional[IndexedAttr]:
    """Recognise ``_IndexedAttribute[T]()(lambda x: <expr>)`` (by the callee
    chain resolving to the name ``_IndexedAttribute``, whatever T is)."""
    v = st.value
    if not (isinstance(v, ast.Call) and len(v.args) == 1
            and isinstance(v.args[0], ast.Lambda)):
        return None
    inner = v.func
    if not isinstance(inner, ast.Call):
        return None
    p = dotted(inner.func)
    if not p or p[-1] != "_IndexedAttribute":
        return None
    lam = v.args[0]
    if len(lam.args.args) != 1:
        return None
    return IndexedAttr(name, st, lam.body, lam.args.args[0].arg)


class ModuleInfo:
    def __init__(self, path: Path, relpath: str, source: Optional[str] = None,
                 tree: Optional[ast.Module] = None):
        self.path = path
        self.relpath = relpath
        self.name = path.stem
        self.source = path.read_text() if source is None else source
        if tree is not None:
            self.tree = tree
        else:
            try:
                self.tree = ast.parse(self.source, filename=str(path))
            except SyntaxError as e:
                raise AnalysisError("cannot parse %s: %s" % (relpath, e))
        for parent in ast.walk(self.tree):
            for ch in ast.iter_child_nodes(parent):
                ch._parent = parent  # type: ignore[attr-defined]
        # evaluation-order index (positions of spliced code are those of the call site)
        k = 0
        stack: List[ast.AST] = [self.tree]
        while stack:
            n = stack.pop()
            n._ord = k  # type: ignore[attr-defined]
            k += 1
            stack.extend(reversed(list(ast.iter_child_nodes(n))))
        self.classes: Dict[str, ClassInfo] = {}
        self.functions: Dict[str, FuncInfo] = {}
        self.imports: Dict[str, Tuple[str, str]] = {}  # local -> (module, name)
        self.assigns: Dict[str, ast.AST] = {}
        self._collect()

    def _collect(self) -> None:
        def add_class(node: ast.ClassDef, outer: Optional[ClassInfo]) -> ClassInfo:
            ci = ClassInfo(node, self, outer)
            for st in node.body:
                if isinstance(st, ast.ClassDef):
                    ci.nested[st.name] = add_class(st, ci)
            self.classes[ci.qualname] = ci
            return ci

        def visit(stmts: Iterable[ast.stmt]) -> None:
            for st in stmts:
                if isinstance(st, ast.ClassDef):
                    add_class(st, None)
                elif isinstance(st, ast.FunctionDef):
                    self.functions[st.name] = FuncInfo(st, self, None)
                elif isinstance(st, ast.ImportFrom):
                    for a in st.names:
                        self.imports[a.asname or a.name] = (
                            "." * st.level + (st.module or ""), a.name)
                elif isinstance(st, ast.Import):
                    for a in st.names:
                        self.imports[a.asname or a.name.split(".")[0]] = (
                            a.name, "")
                elif isinstance(st, ast.Assign) and len(st.targets) == 1 and \
                        isinstance(st.targets[0], ast.Name):
                    self.assigns[st.targets[0].id] = st.value
                elif isinstance(st, ast.AnnAssign) and isinstance(st.target, ast.Name) and st.value is not None:
                    self.assigns[st.target.id] = st.value
                elif isinstance(st, ast.If):
                    # ``if typing.TYPE_CHECKING:`` imports
                    visit(st.body)
                    visit(st.orelse)
        visit(self.tree.body)


class Repo:
    PKG = "python/gtirb"

    def __init__(self, root: Optional[Path] = None,
                 overlay: Optional[Dict[str, str]] = None):
        self.root = Path(root) if root else repo_root()
        self.overlay: Dict[str, str] = dict(overlay or {})
        pkg = self.root / self.PKG
        if not pkg.is_dir():
            raise AnalysisError("anchor vanished: %s" % pkg)
        self.modules: Dict[str, ModuleInfo] = {}
        sources: Dict[str, Tuple[Path, str, str]] = {}
        trees: Dict[str, ast.Module] = {}
        for p in sorted(pkg.glob("*.py")):
            rel = "%s/%s" % (self.PKG, p.name)
            src = self.overlay[rel] if rel in self.overlay else p.read_text()
            sources[p.stem] = (p, rel, src)
            try:
                trees[p.stem] = ast.parse(src, filename=str(p))
            except SyntaxError as e:
                raise AnalysisError("cannot parse %s: %s" % (rel, e))
        self.normal_form: Dict[str, object] = {}
        if os.environ.get("VERIF_NO_NORMALISE") != "1":
            # E0: the rules see the normal form of the tree (normalise.py), never the raw spelling
            from .normalise import Normaliser
            self.normal_form = Normaliser(trees).run().as_dict()
        for stem, (p, rel, src) in sources.items():
            self.modules[stem] = ModuleInfo(p, rel, src, trees[stem])
        self.classes: Dict[str, ClassInfo] = {}
        self.by_simple: Dict[str, List[ClassInfo]] = {}
        for m in self.modules.values():
            for q, c in m.classes.items():
                self.classes.setdefault(q, c)
                self.by_simple.setdefault(c.name, []).append(c)
        for c in list(self.classes.values()):
            c.bases = [self._resolve_base(c, b) for b in c.base_exprs]
            c.bases = [b for b in c.bases if b is not None]

    # -- lookups ------------------------------------------------------------
    def module(self, name: str) -> ModuleInfo:
        if name not in self.modules:
            raise AnalysisError("anchor vanished: module %s.py" % name)
        return self.modules[name]

    def cls(self, qualname: str) -> ClassInfo:
        c = self.classes.get(qualname)
        if c is None:
            raise AnalysisError("anchor vanished: class %s" % qualname)
        return c

    def cls_opt(self, qualname: str) -> Optional[ClassInfo]:
        return self.classes.get(qualname)

    def method(self, qualname: str) -> FuncInfo:
        """'Class.method' / 'Outer.Inner.method' (own definition only)."""
        cq, _, m = qualname.rpartition(".")
        c = self.cls(cq)
        if m in c.methods:
            return c.methods[m]
        raise AnalysisError("anchor vanished: method %s" % qualname)

    def function(self, module: str, name: str) -> FuncInfo:
        f = self.module(module).functions.get(name)
        if f is None:
            raise AnalysisError("anchor vanished: function %s.%s" % (module, name))
        return f

    def resolve_name(self, mod: ModuleInfo, name: str,
                     scope: Optional[ClassInfo] = None) -> Optional[ClassInfo]:
        """Resolve a simple or dotted class name as seen from ``mod``."""
        name = name.strip("\"'")
        parts = name.split(".")
        # nested scope first
        s = scope
        while s is not None:
            if parts[0] in s.nested:
                c = s.nested[parts[0]]
                for p in parts[1:]:
                    c = c.nested.get(p) if c else None
                if c:
                    return c
            if parts[0] == s.name:
                c = s
                for p in parts[1:]:
                    c = c.nested.get(p) if c else None
                if c:
                    return c
            s = s.outer
        head = parts[0]
        c: Optional[ClassInfo] = None
        if head in mod.classes:
            c = mod.classes[head]
        elif head in mod.imports:
            src, orig = mod.imports[head]
            if src.startswith("."):
                m = self.modules.get(src.lstrip("."))
                if m and orig in m.classes:
                    c = m.classes[orig]
        if c is None:
            cands = self.by_simple.get(head, [])
            cands = [x for x in cands if x.outer is None]
            if len(cands) == 1:
                c = cands[0]
        for p in parts[1:]:
            c = c.nested.get(p) if c else None
        return c

    def _resolve_base(self, c: ClassInfo, b: ast.AST) -> Union[ClassInfo, str, None]:
        if isinstance(b, ast.Call):
            # NamedTuple("NamedTuple", (...)) functional form
            p = dotted(b.func)
            if p and p[-1] == "NamedTuple":
                return "typing.NamedTuple"
            return None
        p = dotted(b)
        if not p:
            return None
        last = p[-1]
        r = self.resolve_name(c.module, ".".join(p), c.outer)
        if r is not None and r is not c:
            return r
        if last in _EXTERNAL:
            return _EXTERNAL[last]
        return "external." + last

    def all_functions(self) -> Iterator[FuncInfo]:
        for m in self.modules.values():
            for f in m.functions.values():
                yield f
                yield from f.nested().values()
            for c in m.classes.values():
                for f in c.methods.values():
                    yield f
                    yield from f.nested().values()
                for p in c.props.values():
                    for f in (p.getter, p.setter):
                        if f is not None:
                            yield f
                            yield from f.nested().values()

    def subclasses(self, base: ClassInfo) -> List[ClassInfo]:
        return [c for c in self.classes.values()
                if c is not base and c.is_subclass_of(base)]

    def read_text(self, rel: str) -> str:
        if rel in self.overlay:
            return self.overlay[rel]
        p = self.root / rel
        if not p.is_file():
            raise AnalysisError("anchor vanished: %s" % rel)
        return p.read_text(errors="replace")


# ---------------------------------------------------------------------------
# small AST helpers shared by the rules


def parent(node: ast.AST) -> Optional[ast.AST]:
    return getattr(node, "_parent", None)


def enclosing_function(node: ast.AST) -> Optional[ast.FunctionDef]:
    p = parent(node)
    while p is not None and not isinstance(p, (ast.FunctionDef, ast.Lambda)):
        p = parent(p)
    return p if isinstance(p, ast.FunctionDef) else None


def walk_no_nested(node: ast.AST) -> Iterator[ast.AST]:
    """ast.walk that does not descend into nested function/class definitions
    (lambdas and comprehensions are descended)."""
    stack = [node]
    first = True
    while stack:
        n = stack.pop()
        if not first and isinstance(n, (ast.FunctionDef, ast.AsyncFunctionDef,
                                        ast.ClassDef)):
            continue
        first = False
        yield n
        stack.extend(ast.iter_child_nodes(n))


def local_aliases(fn: ast.FunctionDef) -> Dict[str, ast.AST]:
    """Names assigned exactly once by a plain ``name = expr`` (or annotated)
    and never otherwise rebound: treated as aliases of ``expr``."""
    counts: Dict[str, int] = {}
    vals: Dict[str, ast.AST] = {}
    for n in walk_no_nested(fn):
        if isinstance(n, ast.Assign):
            for t in n.targets:
                for nm in _target_names(t):
                    counts[nm] = counts.get(nm, 0) + 1
                if isinstance(t, ast.Name) and len(n.targets) == 1:
                    vals[t.id] = n.value
        elif isinstance(n, ast.AnnAssign) and isinstance(n.target, ast.Name):
            if n.value is not None:
                counts[n.target.id] = counts.get(n.target.id, 0) + 1
                vals[n.target.id] = n.value
        elif isinstance(n, (ast.AugAssign,)):
            for nm in _target_names(n.target):
                counts[nm] = counts.get(nm, 0) + 2
        elif isinstance(n, (ast.For, ast.comprehension)):
            for nm in _target_names(n.target):
                counts[nm] = counts.get(nm, 0) + 2
        elif isinstance(n, ast.With):
            for it in n.items:
                if it.optional_vars is not None:
                    for nm in _target_names(it.optional_vars):
                        counts[nm] = counts.get(nm, 0) + 2
        elif isinstance(n, ast.ExceptHandler) and n.name:
            counts[n.name] = counts.get(n.name, 0) + 2
        elif isinstance(n, ast.NamedExpr):
            counts[n.target.id] = counts.get(n.target.id, 0) + 2
    params = {a.arg for a in fn.args.posonlyargs + fn.args.args + fn.args.kwonlyargs}
    if fn.args.vararg:
        params.add(fn.args.vararg.arg)
    if fn.args.kwarg:
        params.add(fn.args.kwarg.arg)
    return {k: v for k, v in vals.items() if counts.get(k) == 1 and k not in params}


def _target_names(t: ast.AST) -> List[str]:
    if isinstance(t, ast.Name):
        return [t.id]
    if isinstance(t, (ast.Tuple, ast.List)):
        out: List[str] = []
        for e in t.elts:
            out.extend(_target_names(e))
        return out
    if isinstance(t, ast.Starred):
        return _target_names(t.value)
    return []


def expand_path(expr: ast.AST, aliases: Dict[str, ast.AST],
                depth: int = 0) -> Optional[Tuple[str, ...]]:
    """attr_path with local aliases substituted (``node_ir`` ->
    ('self','_node','ir'))."""
    p = attr_path(expr)
    if p is None:
        return None
    if p[0] in aliases and depth < 8:
        head = expand_path(aliases[p[0]], aliases, depth + 1)
        if head is not None:
            return head + p[1:]
    return p


def unparse(n: ast.AST) -> str:
    try:
        return ast.unparse(n)
    except Exception:  # pragma: no cover
        return "<%s>" % type(n).__name__


def const_str(n: ast.AST) -> Optional[str]:
    if isinstance(n, ast.Constant) and isinstance(n.value, str):
        return n.value
    return None


def call_name(call: ast.Call) -> Optional[Tuple[str, ...]]:
    return attr_path(call.func)


def annotation_names(ann: Optional[ast.AST]) -> List[str]:
    """Class names mentioned by an annotation, Optional/Union/quotes looked
    through: Optional["IR"] -> ['IR']."""
    if ann is None:
        return []
    out: List[str] = []
    if isinstance(ann, ast.Constant) and isinstance(ann.value, str):
        try:
            return annotation_names(ast.parse(ann.value, mode="eval").body)
        except SyntaxError:
            return []
    if isinstance(ann, ast.Subscript):
        head = dotted(ann.value)
        if head and head[-1] in ("Optional", "Union", "Type", "ClassVar"):
            sl = ann.slice
            elts = sl.elts if isinstance(sl, ast.Tuple) else [sl]
            for e in elts:
                out.extend(annotation_names(e))
            return out
        if head:
            return [".".join(head)]
        return []
    p = dotted(ann)
    if p:
        if p[-1] == "None":
            return []
        return [".".join(p)]
    if isinstance(ann, ast.Constant) and ann.value is None:
        return []
    return out
