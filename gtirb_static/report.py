"""E9 obligations, violations, known findings, evidence, exit status."""
from __future__ import annotations

import json
import os
import re
import time
from pathlib import Path
from typing import Any, Dict, List, Optional, Set, Tuple

from .model import AnalysisError, Repo

VERIF = Path(__file__).resolve().parent.parent
KNOWN = VERIF / "known_findings.txt"


class Obligation:
    __slots__ = ("rule", "construct", "ok", "loc", "message", "facts", "undecided")

    def __init__(self, rule: str, construct: str, ok: bool, loc: str,
                 message: str, facts: int, undecided: bool = False):
        self.rule = rule
        self.construct = construct
        self.ok = ok
        self.loc = loc
        self.message = message
        self.facts = facts
        # the rule could not recognise the construct it reasons about (a spelling outside its
        # fragment): neither discharged nor refuted
        self.undecided = undecided and not ok

    def key(self) -> Tuple[str, str]:
        return (self.rule, self.construct)

    def as_dict(self) -> Dict[str, Any]:
        return {"rule": self.rule, "construct": self.construct,
                "at": self.loc, "discharged": self.ok, "what": self.message}


class Check:
    """Collects the obligations of one property on one tree."""

    def __init__(self, prop: str, repo: Repo, tier: str = "quick"):
        self.prop = prop
        self.repo = repo
        self.tier = tier
        self.obs: List[Obligation] = []
        self.functions: Set[str] = set()
        self.call_sites = 0
        self.assumptions: List[str] = []
        self.explanation = ""
        self.rule_text: Dict[str, str] = {}
        self.extra: Dict[str, Any] = {}
        self.floor_failures: List[str] = []

    # -- recording -----------------------------------------------------------
    def rule(self, rid: str, text: str) -> None:
        self.rule_text[rid] = text

    def ob(self, rule: str, construct: str, ok: bool, loc: str, message: str,
           facts: int = 1, undecided: bool = False) -> bool:
        """One obligation.  ``construct`` is the line-independent key.
        ``facts``: number of resolved facts that went into the decision
        (0 marks a trivial obligation).  ``undecided``: a failure means "the rule does not
        understand this spelling" (exit 2), not "the code contradicts the rule" (exit 1)."""
        # facts < 0: the shared rule modules' way of saying "undecided"
        self.obs.append(Obligation(rule, construct, bool(ok), loc, message, abs(facts), undecided or facts < 0))
        return bool(ok)

    def cannot_decide(self, rule: str, construct: str, loc: str, message: str) -> None:
        self.obs.append(Obligation(rule, construct, False, loc, message, 1, True))

    def adopt(self, other: "Check", pred=None, rule: Optional[str] = None) -> int:
        """take over the obligations another property's rule function produced
        (shared rules are reported under every property they break)"""
        n = 0
        taken: List[str] = []
        for o in other.obs:
            if pred is not None and not pred(o):
                continue
            self.obs.append(Obligation(rule or o.rule, o.construct, o.ok, o.loc, o.message, o.facts, o.undecided))
            taken.append(o.construct)
            n += 1
        if pred is None:
            self.functions |= other.functions
        else:
            # only the functions the adopted obligations are about (constructs start with them)
            for q in other.functions:
                if any(c == q or (c.startswith(q) and c[len(q)] in ":(.@[") for c in taken):
                    self.functions.add(q)
        self.call_sites += other.call_sites
        for k, v in other.rule_text.items():
            self.rule_text.setdefault(k, v)
        return n

    def sub(self) -> "Check":
        return Check(self.prop, self.repo, self.tier)

    def adopt_property(self, other_prop: str, rule: str, pred=None) -> int:
        """this property cannot hold where ``other_prop`` is violated: run that property's rules
        on the same tree and take over their obligations (reported under ``rule``).  An
        obligation this check already has (same construct, same outcome) is not repeated."""
        import importlib
        cache = self.repo.__dict__.setdefault("_prop_obs", {})
        if other_prop not in cache:
            sub = Check(other_prop, self.repo, self.tier)
            importlib.import_module("gtirb_static.rules.%s" % other_prop.lower()).run(sub)
            cache[other_prop] = sub
        sub = cache[other_prop]
        have = {(o.construct, o.ok) for o in self.obs}
        n = 0
        for o in sub.obs:
            if pred is not None and not pred(o):
                continue
            if (o.construct, o.ok) in have:
                continue
            have.add((o.construct, o.ok))
            self.obs.append(Obligation(rule, o.construct, o.ok, o.loc,
                                       "%s [%s %s]" % (o.message, other_prop, o.rule), o.facts, o.undecided))
            n += 1
        self.functions |= sub.functions
        self.call_sites += sub.call_sites
        return n

    def saw(self, fi: Any) -> None:
        self.functions.add(fi.qualname if hasattr(fi, "qualname") else str(fi))

    def floor(self, rule: str, what: str, count: int, minimum: int) -> None:
        if count < minimum:
            # decided in finish(): a violation explaining the shortfall wins; a
            # shortfall with no violation is an analysis error, never a pass
            self.floor_failures.append(
                "%s: %s matched %d instance(s), below the confirmed floor %d "
                "(anchor vanished or analysis broken)" % (rule, what, count, minimum))
        self.extra.setdefault("instance_counts", {})["%s %s" % (rule, what)] = count

    # -- results ---------------------------------------------------------------
    def violations(self) -> List[Obligation]:
        seen: Set[Tuple[str, str]] = set()
        out = []
        for o in self.obs:
            if not o.ok and not o.undecided and o.key() not in seen:
                seen.add(o.key())
                out.append(o)
        return out

    def undecided(self) -> List[Obligation]:
        seen: Set[Tuple[str, str]] = set()
        out = []
        for o in self.obs:
            if not o.ok and o.undecided and o.key() not in seen:
                seen.add(o.key())
                out.append(o)
        return out


def load_known() -> Dict[Tuple[str, str, str], str]:
    """(property, rule, construct) -> text, from ``known:`` lines only."""
    out: Dict[Tuple[str, str, str], str] = {}
    if not KNOWN.is_file():
        return out
    for line in KNOWN.read_text().splitlines():
        line = line.strip()
        if not line.startswith("known:"):
            continue
        m = re.match(r"known:\s+property=(\S+)\s+rule=(\S+)\s+construct=(\S+)\s*(.*)$", line)
        if not m:
            raise AnalysisError("malformed known_findings line: %r" % line)
        out[(m.group(1), m.group(2), m.group(3))] = m.group(4).lstrip("—- ").strip()
    return out


def finish(chk: Check, t0: float, seed: int, audit: Optional[Dict[str, Any]] = None) -> int:
    """Print the verdict, write evidence and replay files, return exit code."""
    known = load_known()
    viol = chk.violations()
    new: List[Obligation] = []
    known_hit: List[Tuple[Obligation, str]] = []
    for v in viol:
        k = (chk.prop, v.rule, v.construct)
        if k in known:
            known_hit.append((v, known[k]))
        else:
            new.append(v)
    ev_dir = VERIF / "evidence"
    rp_dir = ev_dir / "replay"
    ev_dir.mkdir(exist_ok=True)
    rp_dir.mkdir(exist_ok=True)
    for old in rp_dir.glob("%s-*.json" % chk.prop):
        old.unlink()
    for v, text in known_hit:
        print("KNOWN-FINDING: property=%s %s %s at %s — %s"
              % (chk.prop, v.rule, v.construct, v.loc, text or v.message))
    for i, v in enumerate(new, 1):
        rp = rp_dir / ("%s-%d.json" % (chk.prop, i))
        rp.write_text(json.dumps({
            "property": chk.prop, "rule": v.rule, "construct": v.construct,
            "at": v.loc, "message": v.message,
            "rule_text": chk.rule_text.get(v.rule, ""),
            "replay": "/venv/bin/python -m gtirb_static replay %s" % rp,
        }, indent=1))
        print("%s %s %s: %s" % (v.loc, v.rule, v.construct, v.message))
        print("VIOLATION property=%s replay=%s" % (chk.prop, rp))
    distinct = {o.key() for o in chk.obs if o.facts > 0}
    per_rule: Dict[str, int] = {}
    for o in chk.obs:
        per_rule[o.rule] = per_rule.get(o.rule, 0) + 1
    samples = [o.as_dict() for o in _spread(chk.obs, 14)]
    cov: Dict[str, Any] = {
        "explanation": chk.explanation or
        "structural obligations decided statically on the working tree",
        "obligations": len(chk.obs),
        "discharged": sum(1 for o in chk.obs if o.ok),
        "evaluations": len(chk.obs),
        "distinct_nontrivial": len(distinct),
        "rule": "every obligation is one (rule, construct) instance enumerated "
                "from the parsed sources; non-trivial = at least one resolved "
                "fact (attribute access, callee, schema field, dominance) was "
                "consulted; distinct = distinct (rule, construct) keys",
        "samples": samples,
        "rules": chk.rule_text,
        "per_rule_instances": per_rule,
        "functions_analysed": len(chk.functions),
        "functions": sorted(chk.functions)[:80],
        "call_sites": chk.call_sites,
        "known_findings_matched": [
            {"rule": v.rule, "construct": v.construct, "at": v.loc} for v, _ in known_hit],
        "new_violations": [v.as_dict() for v in new],
        "undecided": [v.as_dict() for v in chk.undecided()],
        "repo_root": str(chk.repo.root),
        "normal_form": getattr(chk.repo, "normal_form", {}),
        "exhaustive": True,
    }
    cov.update(chk.extra)
    if audit is not None:
        cov["sensitivity_audit"] = audit
    ev = {
        "property_id": chk.prop,
        "tier": chk.tier,
        "seed": seed,
        "level": "other",
        "coverage": cov,
        "assumptions": chk.assumptions + [
            "no monkey-patching / reflection on model objects beyond what the engine resolves",
            "third-party libraries (intervaltree, sortedcontainers, networkx, protobuf) behave as documented",
            "clients use the public API only",
            "normal form (E0): bound methods of live objects are not rebound; attributes assigned only in "
            "constructors do not change afterwards; range/slice bounds and Interval fields are immutable; "
            "extend(generator) appends element by element",
            "normal form (E0), added with the later passes: an attribute that constructors bind to a freshly built "
            "object and nothing rebinds is never None; a method is not re-entered through a callback while a "
            "local alias of an attribute it assigns is live; a generator is advanced by the consumer it was "
            "created for (creation and first step are not separated by other effects); copying an inherited "
            "method into the subclass that inherits it, or the methods of a mix-in into the classes that list "
            "it first, changes nothing (no super(), no __class__ in them); functools.partial / a function-object "
            "class over names that are never rebound is the call it abbreviates",
        ],
        "wall_s": round(time.time() - t0, 3),
        "violations": len(new),
    }
    (ev_dir / ("%s.json" % chk.prop)).write_text(json.dumps(ev, indent=1))
    n_ok = sum(1 for o in chk.obs if o.ok)
    print("%s: %d obligations, %d discharged, %d known finding(s), %d violation(s); "
          "%d functions analysed [%s tier, %.2fs]"
          % (chk.prop, len(chk.obs), n_ok, len(known_hit), len(new),
             len(chk.functions), chk.tier, time.time() - t0))
    if new:
        return 1
    und = chk.undecided()
    if und:
        for v in und:
            print("ANALYSIS-ERROR: cannot decide %s %s at %s: %s" % (v.rule, v.construct, v.loc, v.message))
        return 2
    if chk.floor_failures:
        for ff in chk.floor_failures:
            print("ANALYSIS-ERROR: %s" % ff)
        return 2
    return 0


def _spread(obs: List[Obligation], n: int) -> List[Obligation]:
    """one sample per rule first, then fill up"""
    out: List[Obligation] = []
    seen_rules: Set[str] = set()
    for o in obs:
        if o.rule not in seen_rules:
            seen_rules.add(o.rule)
            out.append(o)
    for o in obs:
        if len(out) >= n:
            break
        if o not in out:
            out.append(o)
    return out[:max(n, len(seen_rules))]
