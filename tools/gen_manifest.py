#!/venv/bin/python
"""Regenerate /verif/MANIFEST.json from the table below (single source)."""
import json
import subprocess
from pathlib import Path

VERIF = Path(__file__).resolve().parent.parent

# property -> (technique, level text, level note, design ref)
BUILT = {
    "C03": ("who-may-write + CFG must-pass-through pairing over the UUID-table primitives",
            "Structural: the per-IR UUID table is touched only by a closed set of primitives, each "
            "of which updates table, back-pointer and store together on every path (guard-aware); "
            "cache methods recurse into exactly the owning collections; every decoder registers "
            "what it returns. Covers every history at once; does not establish the lookup result "
            "for a particular history.",
            "Python semantics of the handled statement kinds; no reflection on model objects; "
            "UUIDs never change while attached (the property's quantifier).", "4/C03"),
    "C04": ("who-may-write, pairing on the CFG, sibling agreement of parent setters, term "
            "normalisation of accessors/aggregates against the derived containment relation",
            "Structural: back-pointers and stores are written only by the owning collections' "
            "primitives, each paired on all paths; the six parent setters delegate to the right "
            "collection; derived accessors and aggregate iterators expand to exactly the "
            "containment chain/paths; constructor arguments are copied; identity semantics kept.",
            "As C03; list-wrapper re-entrancy defects are reported under C16.", "4/C04"),
    "C16": ("contract check of collections.abc mixins (parsed from the interpreter's "
            "_collections_abc.py) against the wrapper classes; hook/validation ordering on the "
            "CFG; re-entrancy through resolved callees",
            "Structural: the documented subclass contracts of the abc mixins (_from_iterable, "
            "abstract methods, primitives) are met by every collection class; variadic update "
            "iterates its arguments; non-mutating operators neither alias nor mutate the store; "
            "ListWrapper hooks do not run before validation and no position survives a "
            "re-entrant hook (three known findings on the pinned tree, see known_findings.txt). "
            "Return values/exception types of each operation vs the built-in are not decided.",
            "collections.abc semantics as in the running interpreter's source; builtin "
            "list/set/dict/SortedDict semantics.", "4/C16"),
    "C07": ("wire-shape abstraction of every codec's encode/decode body (syntax-directed walk) "
            "and comparison of the two directions; count-prefix pairing; parameter tables",
            "Structural: for each of the 11 codec bodies the decoder's wire-shape term equals the "
            "encoder's; every count prefix measures exactly what is written/iterated after it; "
            "integer/float parameter tables and the codec table are consistent; get_by_uuid is "
            "forwarded down every recursive decode; UUIDCodec resolves nodes. Value equality "
            "itself rests on int.to_bytes/struct and is not decided.",
            "int.to_bytes/from_bytes, struct, str.encode semantics; well-formed input (the "
            "property's quantifier).", "4/C07"),
    "C08": ("encoder wire-shape terms compared with a frozen reference table transcribed from "
            "include/gtirb/AuxData.hpp; anchor scan of C++/Java type names",
            "Structural: the wire shape of each of the 20 type-name heads (both directions, class "
            "constants substituted, delegations flattened) equals the reference transcribed from "
            "the documented format (widths, little-endian, IEEE, byte-counted UTF-8 strings, "
            "uint64 counts and variant index, field order); C++/Java type names are all offered. "
            "Cross-decoding by the Java/C++ implementations is NOT decided (would need executing "
            "or modelling them).",
            "the reference table is a transcription (one line per wire type, each citing its "
            "trait); Java/C++ sources are scanned for anchors only.", "4/C08"),
    "C01": ("persisted-state agreement between constructors, writers and readers; boolean-"
            "context (falsy-drop) scan over all writer/reader functions; whole-map AuxData transfer",
            "Structural: every constructor-declared state attribute of the 11 persisted classes is "
            "read by a writer and re-established by a reader (type-resolved receivers); no integer/"
            "string scalar decides presence by truthiness; AuxData maps travel unfiltered. Together "
            "with C02 (field/name/kind agreement) nothing can be dropped on the way out or in. "
            "Round-trip VALUE equality, construction-order independence and byte-identical re-save "
            "are not decided.",
            "constructors declare the persisted state; protobuf runtime fidelity.", "4/C01"),
    "C02": ("schema-typed dataflow over _pb2 message objects: every field read/write attributed to "
            "(Message, field) and compared with proto/*.proto per direction; enum mirror; header "
            "constant folding",
            "Structural: all 62 reachable schema fields are written and read; each written value "
            "derives from the attribute the field mirrors, with the right kind (uuid bytes, enum "
            ".value, presence flags from 'is None'); each read flows to the mirrored constructor "
            "keyword/attribute; the 7 Python enums are bijective with the schema's 102 constants; "
            "header layout matches PROTOBUF.md and version.txt. Each direction is checked against "
            "the schema on its own. Behaviour under the upb vs pure-Python back-ends is not decided.",
            "proto/*.proto is the schema the _pb2 modules are generated from (they are build "
            "products absent from the tree).", "4/C02"),
    "C05": ("index-key/notify analysis of the notify-parent descriptor, CFG pairing of index "
            "maintenance in the membership primitives, term normalisation of the 30 lookup methods",
            "Structural: every stored attribute the block-index key reads is a notify-parent "
            "attribute of the right parent; the descriptor discards-before/adds-after the store on "
            "every path; attach/detach maintain the index; lookups search the fresh tree with the "
            "helper of the same kind; code/data variants are exact isinstance filters; scopes "
            "compose by same-name unions; closed-interval bias agrees between builders and "
            "consumers. The boundary arithmetic inside the helpers is NOT decided.",
            "intervaltree semantics; set semantics of tree.overlap.", "4/C05"),
    "C06": ("same as C05 for the per-section interval index, plus guard agreement of the two "
            "extent properties",
            "Structural: ByteInterval.address/size notify the section; membership maintains the "
            "section index; byte_intervals_on/at and sections_on/at delegate with the right "
            "selector; Section.address and Section.size use the index under the same "
            "non-empty-and-complete guard. Boundary arithmetic not decided.",
            "intervaltree semantics (node identity is part of Interval identity).", "4/C06"),
    "C09": ("schema-typed reference-site analysis with CFG dominance of kind checks; "
            "producer-before-consumer over the decode stage lists via call-graph closure",
            "Structural: each of the 8 reference fields is resolved only by UUID(bytes=..) -> the "
            "loading IR's get_by_uuid -> isinstance check whose failing outcome raises "
            "DeserializationError on every path; Node._from_protobuf reuses only same-class "
            "cached nodes; decoders register what they return; stages consuming a kind follow the "
            "stages producing it; lazy AuxData is bound to the loading IR.",
            "UUIDs unique per kind in the file.", "4/C09"),
    "C10": ("index-key/notify analysis for the symbol indexes, add/discard mirror comparison, "
            "who-may-write, CFG pairing in the symbol-set primitives",
            "Structural: name and payload are notify-parent attributes of the module; value/referent "
            "setters store only the payload; _index_add/_index_discard mirror each other and are the "
            "only writers; the node-set primitives call them on every path; lookups read the right "
            "index of the right module with the right key.",
            "builtin set/dict semantics.", "4/C10"),
    "C11": ("who-may-write on the edge multigraph, CFG dominance of the add guard and discard key, "
            "abc mixin routing, sibling agreement of adjacency views",
            "Structural local guards: one multigraph edge per element, added only when absent, "
            "removed by the key found for exactly that (source, target, label), labels compared by "
            "==, adjacency views use the matching networkx view in (s, t, l) order, block edge "
            "properties delegate correctly. The observable state after arbitrary mixed sequences "
            "and networkx's semantics are not decided.",
            "networkx MultiDiGraph semantics.", "4/C11"),
    "C12": ("effect analysis over a type-resolved call-graph closure of every lookup entry point; "
            "CFG state-machine analysis of LazyIntervalTree.get",
            "Structural: lookups write nothing outside the lazy wrapper; clients only add/discard/"
            "get and never store a tree; add/discard capture the interval at edit time; get() "
            "rebuilds or replays all events in order and clears the queue on every path; rebuild "
            "and replay index the same collection with the same notifying key. Equivalence of "
            "replay and rebuild as a function of event content rests on intervaltree set semantics.",
            "intervaltree add/discard are set operations.", "4/C12"),
    "C13": ("who-may-mutate the sorted store, alias-safety ordering on the setter's CFG, linear "
            "forms of the irange bounds and step filter, term comparison of scope composition",
            "Structural: the store is a SortedDict mutated only by __setitem__/__delitem__; "
            "whole-mapping assignment copies before clearing; the range lookups iterate "
            "[start-address, stop-address) half-open with the step filter and yield (self, i, "
            "expr); Section/Module/IR compose the same lookup. Range arithmetic beyond these shape "
            "facts is not decided.",
            "sortedcontainers.SortedDict.irange semantics.", "4/C13"),
    "C14": ("typestate (who-may-write + paired writes on the CFG) over AuxData's raw-bytes/value/"
            "type-name fields; dominance of the raw-reuse assignment by both guards; shape of the "
            "unknown-codec fallback",
            "Structural: raw bytes are dropped whenever the value is read or replaced; saved bytes "
            "are the loaded ones only while held and under an unchanged type name, otherwise the "
            "current value is encoded through the data property under the current name; unknown "
            "codecs at any depth yield UnknownData of the complete input, written back verbatim.",
            "protobuf bytes fidelity.", "4/C14"),
    "C15": ("regex AST analysis (re._parser) of the tokeniser, exception-discipline scan, CFG "
            "dominance of destructuring guards",
            "REDUCED CLAIM. Decided: the tokeniser partitions every input into maximal name runs "
            "and the three delimiters without dropping characters; only TypeNameError is raised "
            "deliberately and it cannot be intercepted or translated; every destructuring is "
            "guarded. NOT decided: that exactly the grammar's language is accepted and the tree is "
            "the grammar's tree (acceptance/rejection logic of the recursive parser), and "
            "RecursionError on very long sibling lists.",
            "re.findall semantics.", "4/C15"),
    "C17": ("CFG dominance of header/version/size checks over what they protect; exception-"
            "handler scan over the load path; re-use of the reference/stage/ownership rules",
            "Structural: magic and version comparisons (unconditional, raising ValueError) dominate "
            "the parse; the message version check dominates construction; every reference is "
            "kind-checked; decoders build only through the public primitives; validating "
            "constructors/enums/UUID conversions are on the decode path; oneofs are exhaustive; no "
            "decoder swallows an exception. Termination, ParseFromString on corrupt bytes and "
            "'every saved file is accepted' are not decided.",
            "protobuf runtime rejects malformed wire data by raising.", "4/C17"),
    "C18": ("compared-attribute extraction from every deep_eq chain vs constructor state; class-"
            "hierarchy exactness of isinstance guards; zip/sort/length-test shape analysis",
            "Structural: each concrete class's deep_eq chain compares every constructor-declared "
            "attribute, pairs the same attribute on both sides, has an isinstance guard no other "
            "concrete class satisfies, zips children sorted by one key after a length test, and "
            "treats optional referents symmetrically.",
            "sorted/zip semantics; UUIDs totally ordered.", "4/C18"),
    "C19": ("effect obligations on the assignment paths of size/initialized_size; operand-shape "
            "(linear form) analysis of the block views",
            "Structural: initialized_size is len(contents) with a pad/truncate setter and no shadow "
            "field; the constructor validates before assigning and copies the buffer; the size "
            "setter truncates contents (as doc/general/ByteInterval.md requires) and still notifies "
            "the section index; block address/contents/contains_* have the half-open shape the "
            "property states.",
            "in-range content edits only (contents is a public attribute).", "4/C19"),
}

REASON_PENDING = "check not built yet (construction phase); planned, see DESIGN.md section 4"


def main() -> None:
    props = [json.loads(l)["id"] for l in (VERIF / "properties.jsonl").read_text().splitlines() if l.strip()]
    try:
        fixes = subprocess.run(
            ["git", "-C", "/repo", "log", "--format=%H %s"], capture_output=True, text=True
        ).stdout.splitlines()
        fix_commits = [l.split()[0] for l in fixes if l.split(" ", 1)[1].startswith("fix:")]
    except Exception:
        fix_commits = []
    checks = []
    for p in props:
        if p not in BUILT:
            continue
        tech, text, note, ref = BUILT[p]
        checks.append({
            "property_id": p,
            "quick_cmd": "/venv/bin/python -m gtirb_static check %s" % p,
            "thorough_cmd": "/venv/bin/python -m gtirb_static check %s --tier thorough" % p,
            "evidence_file": "/verif/evidence/%s.json" % p,
            "replay_cmd_template": "/venv/bin/python -m gtirb_static replay {path}",
            "engine": "gtirb_static",
            "level_claimed": {"category": "other", "text": text, "design_ref": "DESIGN.md " + ref},
            "level_note": note,
            "technique": "static analysis: " + tech,
        })
    m = {
        "version": 1,
        "setup_cmd": "/venv/bin/python -m gtirb_static selfcheck",
        "hooks": {
            "guard": "GTIRB_VERIF",
            "enable": "none needed: the checks read /repo sources with ast; no instrumentation exists",
            "baseline_off_cmd": "cd /repo && /venv/bin/python -m pytest -ra -q -p no:cacheprovider "
                                "--timeout=900 --continue-on-collection-errors",
            "source_commits": list(reversed(fix_commits)),
            "add_only": True,
        },
        "engines": [{
            "name": "gtirb_static",
            "path": "/verif/gtirb_static",
            "serves_properties": sorted(BUILT),
            "kind_free_text": "repository-specific static analyser over Python ast: normal form of the "
                              "parsed tree (private helpers inlined, temporaries substituted, call "
                              "style and statement shapes unified), class/MRO model incl. "
                              "collections.abc mixins, statement CFG with dominators and dominating "
                              "facts (networkx), path summaries of loop-free functions, proto3 "
                              "schema parser, schema-typed dataflow, term normalisation, wire-shape "
                              "abstraction; thorough tier adds an in-memory sensitivity audit "
                              "(catalogue of seeded faults and twins) and a corpus audit (stored "
                              "behaviour-preserving patches must stay silent, stored seeded changes "
                              "must be reported)",
        }],
        "checks": checks,
        "notes": "All checks are static (no gtirb import, no execution). Exit 0 = every structural "
                 "obligation discharged; 1 = violation not listed in known_findings.txt; 2 = "
                 "ANALYSIS-ERROR (vanished anchor, construct outside the fragment, or - thorough "
                 "tier only - an audit variant misjudged). See DESIGN.md.",
        "not_applicable": [{"property_id": p, "reason": REASON_PENDING} for p in props if p not in BUILT],
    }
    (VERIF / "MANIFEST.json").write_text(json.dumps(m, indent=1) + "\n")
    print("MANIFEST.json: %d checks, %d not_applicable, %d fix commits"
          % (len(checks), len(m["not_applicable"]), len(fix_commits)))


if __name__ == "__main__":
    main()
