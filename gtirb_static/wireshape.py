"""E8: abstract each codec ``encode`` / ``decode`` body to a wire-shape term.

Events, in stream order:
  ('count', obj)                 uint64 count; obj = what is measured ('len:NAME') on the
                                 encode side, the variable bound on the decode side
  ('loop', kind, over, body)     kind 'counted' | 'types' | 'other'
  ('tree', typeref, value?)      recursive _encode_tree/_decode_tree with a subtype
  ('int', size, order, signed)   fixed-width integer
  ('struct', fmt, size)          struct.pack/unpack
  ('raw', size, what)            raw bytes: what in {'bool','uuid','utf8','blob', ...}
  ('sub', CodecName, value?)     delegation to another codec
"""
from __future__ import annotations

import ast
from typing import Any, Dict, List, Optional, Tuple

from .model import FuncInfo, attr_path, dotted, unparse

Event = tuple


class ShapeError(Exception):
    """construct outside the fragment the walker understands"""


class Shape:
    def __init__(self, f: FuncInfo, direction: str):
        self.f = f
        self.direction = direction
        self.events: List[Event] = []
        self.notes: List[str] = []
        self.typevars: Dict[str, Any] = {}
        self.counts: Dict[str, bool] = {}      # decode: var -> used?
        self.locals: Dict[str, ast.AST] = {}
        self.forwarded_lookup: List[Tuple[ast.Call, bool]] = []
        self.closures: Dict[str, ast.FunctionDef] = {}
        self.alternatives: Dict[str, List[ast.AST]] = {}
        self._active: List[str] = []
        ps = f.param_names()
        self.stream = ps[1] if (f.is_classmethod or f.self_name) and len(ps) > 1 else ps[0]
        if f.is_staticmethod:
            self.stream = ps[0]
        self.value = None
        if direction == "encode":
            idx = ps.index(self.stream)
            self.value = ps[idx + 1] if len(ps) > idx + 1 else None
        self.events = self._block(f.node.body)

    # ------------------------------------------------------------------
    def _block(self, stmts: List[ast.stmt]) -> List[Event]:
        out: List[Event] = []
        for idx, st in enumerate(stmts):
            if isinstance(st, ast.If) and st.body and isinstance(st.body[-1], ast.Return) and not st.orelse:
                # early return: what follows happens only on the other outcome
                out.extend(self._expr(st.test))
                a = self._block(st.body)
                rest = self._block(stmts[idx + 1:])
                if a == rest or (not rest and self._ends_in_raise(stmts[idx + 1:])):
                    # the other outcome writes the same, or rejects the value: no alternative
                    out.extend(a)
                else:
                    out.append(("alt", tuple(a), tuple(rest)))
                return out
            out.extend(self._stmt(st))
        return out

    def _ends_in_raise(self, stmts: List[ast.stmt]) -> bool:
        return bool(stmts) and isinstance(stmts[-1], ast.Raise)

    def _stmt(self, st: ast.stmt) -> List[Event]:
        if isinstance(st, ast.Expr) and isinstance(st.value, ast.Constant):
            return []
        if isinstance(st, ast.FunctionDef):
            # a local function: abstracted where it is called with the stream
            self.closures[st.name] = st
            return []
        if isinstance(st, ast.While):
            body = self._block(st.body)
            if self._expr(st.test):
                raise ShapeError("stream operation in a loop header")
            return [("loop", "other", unparse(st.test)[:40], tuple(body))] if body else []
        if isinstance(st, ast.If):
            ev = self._expr(st.test)
            if self._ends_in_raise(st.body) and not st.orelse:
                if self._block(st.body[:-1]):
                    raise ShapeError("stream operation inside a validation branch")
                return ev
            a = self._block(st.body)
            b = self._block(st.orelse)
            # a branch that ends in ``raise`` produces no output
            a_dead = self._ends_in_raise(st.body)
            b_dead = self._ends_in_raise(st.orelse)
            if a_dead and b_dead:
                return ev
            if b_dead:
                return ev + a
            if a_dead:
                return ev + b
            if not a and not b:
                return ev
            return ev + [("alt", tuple(a), tuple(b))]
        if isinstance(st, ast.Try):
            body = self._block(st.body)
            for h in st.handlers:
                if not self._ends_in_raise(h.body):
                    if self._block(h.body):
                        raise ShapeError("stream operation inside an exception handler")
            return body + self._block(st.orelse) + self._block(st.finalbody)
        if isinstance(st, ast.For):
            pre, kind, over = self._loop_head(st.iter, st.target)
            body = self._block(st.body)
            return pre + [("loop", kind, over, tuple(body))]
        if isinstance(st, (ast.Assign, ast.AnnAssign)):
            val = st.value
            if val is None:
                return []
            tg = st.targets[0] if isinstance(st, ast.Assign) else st.target
            self._bind_types(tg, val)
            ev = self._expr(val)
            if not isinstance(tg, (ast.Name, ast.Tuple, ast.List)):
                ev = ev + self._expr(tg)        # ``m[decode(k)] = decode(v)``: the value first
            if isinstance(tg, ast.Name):
                if tg.id in self.locals and ast.dump(self.locals[tg.id]) != ast.dump(val):
                    # bound to different things on different paths (try / except, if / else)
                    self.alternatives.setdefault(tg.id, [self.locals[tg.id]]).append(val)
                self.locals[tg.id] = val
                if self.direction == "decode" and ev and ev[-1][0] == "sub" \
                        and ev[-1][1] == "Uint64Codec" and self._is_decode_of(val, "Uint64Codec"):
                    # provisional: becomes a count when used as range()/read() size
                    ev[-1] = ("u64var", tg.id)
                elif self.direction == "decode" and ev and ev[-1][0] == "int" and len(ev[-1]) == 4:
                    ev[-1] = ev[-1] + (tg.id,)
            return ev
        if isinstance(st, (ast.Expr, ast.Return)):
            return self._expr(st.value) if st.value is not None else []
        if isinstance(st, (ast.Raise, ast.Pass, ast.Assert)):
            return []
        if isinstance(st, ast.AugAssign):
            return self._expr(st.value)
        raise ShapeError("statement %s" % type(st).__name__)

    def _is_decode_of(self, val: ast.AST, codec: str) -> bool:
        return isinstance(val, ast.Call) and attr_path(val.func) == (codec, "decode")

    def _bind_types(self, tg: ast.AST, val: ast.AST) -> None:
        """``key_type, val_type = subtypes`` / ``(subtype,) = subtypes``"""
        if isinstance(val, ast.Name) and val.id == "subtypes" and isinstance(tg, (ast.Tuple, ast.List)):
            for i, e in enumerate(tg.elts):
                if isinstance(e, ast.Name):
                    self.typevars[e.id] = ("sub", i, len(tg.elts))

    def _loop_head(self, it: ast.AST, target: ast.AST) -> Tuple[List[Event], str, str]:
        """events of the loop header, loop kind, what is iterated.  ``range(<count read here>)``
        is the same as a count read into a variable just before the loop."""
        if isinstance(it, ast.Call) and attr_path(it.func) == ("range",) and len(it.args) == 1 \
                and self._is_decode_of(it.args[0], "Uint64Codec") and self.direction == "decode":
            ev = self._expr(it.args[0])
            if ev == [("sub", "Uint64Codec")]:
                tag = "@%d:%d" % (it.lineno, it.col_offset)
                return [("u64var", tag)], "counted", "range:" + tag
        head = self._expr(it)
        if head:
            raise ShapeError("stream operation in a loop header")
        fake = ast.For(target=target, iter=it, body=[], orelse=[])
        kind, over = self._loop_kind(fake)
        return [], kind, over

    def _loop_kind(self, st: ast.For) -> Tuple[str, str]:
        it = st.iter
        # decode: for _ in range(n)
        if isinstance(it, ast.Call) and attr_path(it.func) == ("range",) and len(it.args) == 1 \
                and isinstance(it.args[0], ast.Name):
            n = it.args[0].id
            return "counted", "range:" + n
        plain = isinstance(it, ast.Name) and it.id == "subtypes"
        zipped = isinstance(it, ast.Call) and attr_path(it.func) == ("zip",) and all(
            isinstance(a, ast.Name) for a in it.args) and any(a.id == "subtypes" for a in it.args)
        if plain or zipped:
            # for subtype in subtypes / for item, subtype in zip(items, subtypes)
            tg = st.target
            tvars = [e for e in (tg.elts if isinstance(tg, ast.Tuple) else [tg])]
            for e in tvars:
                if isinstance(e, ast.Name) and e.id != (self.value or ""):
                    self.typevars.setdefault(e.id, ("each",))
            if isinstance(it, ast.Call) and attr_path(it.func) == ("zip",):
                # the value side of the zip
                for a in it.args:
                    if isinstance(a, ast.Name) and a.id != "subtypes":
                        for e in tvars:
                            if isinstance(e, ast.Name) and self.typevars.get(e.id) == ("each",) \
                                    and it.args.index(a) == tvars.index(e):
                                del self.typevars[e.id]
                # the target bound to 'subtypes' position is the type var
                for pos, a in enumerate(it.args):
                    if isinstance(a, ast.Name) and a.id == "subtypes" and pos < len(tvars) \
                            and isinstance(tvars[pos], ast.Name):
                        self.typevars[tvars[pos].id] = ("each",)
            return "types", "subtypes"
        base = it
        if isinstance(base, ast.Call) and isinstance(base.func, ast.Attribute) \
                and base.func.attr in ("items", "keys", "values") and not base.args:
            base = base.func.value
        if isinstance(base, ast.Name):
            return "counted", "iter:" + base.id
        return "other", unparse(it)[:40]

    # ------------------------------------------------------------------
    def _expr(self, e: Optional[ast.AST]) -> List[Event]:
        if e is None:
            return []
        out: List[Event] = []
        self._post(e, out)
        return out

    def _post(self, e: ast.AST, out: List[Event]) -> None:
        if isinstance(e, (ast.GeneratorExp, ast.ListComp, ast.SetComp, ast.DictComp)) and len(e.generators) == 1 \
                and not e.generators[0].is_async:
            # a comprehension is the loop it abbreviates
            g = e.generators[0]
            pre, kind, over = self._loop_head(g.iter, g.target)
            body: List[Event] = []
            for cond in g.ifs:
                self._post(cond, body)
            if isinstance(e, ast.DictComp):
                self._post(e.key, body)
                self._post(e.value, body)
            else:
                self._post(e.elt, body)
            if body or pre:
                out.extend(pre)
                out.append(("loop", kind, over, tuple(body)))
            return
        if isinstance(e, (ast.Lambda, ast.GeneratorExp, ast.ListComp, ast.SetComp, ast.DictComp)):
            inner: List[Event] = []
            for ch in ast.iter_child_nodes(e):
                self._post(ch, inner)
            if inner:
                raise ShapeError("stream operation inside a comprehension/lambda")
            return
        if isinstance(e, ast.Call):
            ev = self._call(e)
            if ev is not None:
                out.extend(ev)
                return
        for ch in ast.iter_child_nodes(e):
            self._post(ch, out)

    def _is_stream(self, e: ast.AST) -> bool:
        return isinstance(e, ast.Name) and e.id == self.stream

    def _call(self, c: ast.Call) -> Optional[List[Event]]:
        """events for a call that *is* (or directly wraps) a stream operation;
        None if this call is not a wrapper we know (children are then visited)."""
        fn = c.func
        if isinstance(fn, ast.Name) and fn.id in self.closures and fn.id not in self._active:
            d = self.closures[fn.id]
            params = [a.arg for a in d.args.args]
            pos = [i for i, a in enumerate(c.args) if self._is_stream(a)]
            captures = any(isinstance(n, ast.Name) and n.id == self.stream for n in ast.walk(d)) \
                and self.stream not in params
            if not pos and captures:
                self._active.append(fn.id)
                try:
                    pre0: List[Event] = []
                    for a in c.args:
                        self._post(a, pre0)
                    return pre0 + self._block(d.body)
                finally:
                    self._active.pop()
            if pos and pos[0] < len(params):
                saved = self.stream
                self.stream = params[pos[0]]
                self._active.append(fn.id)
                try:
                    pre: List[Event] = []
                    for i, a in enumerate(c.args):
                        if i != pos[0]:
                            self._post(a, pre)
                    return pre + self._block(d.body)
                finally:
                    self.stream = saved
                    self._active.pop()
        if isinstance(fn, ast.Name) and isinstance(self.locals.get(fn.id), ast.Attribute):
            fn = self.locals[fn.id]       # ``enc = serialization._encode_tree``
        # serialization._encode_tree(out, v, T) / _decode_tree(raw, T, g)
        if isinstance(fn, ast.Attribute) and fn.attr in ("_encode_tree", "_decode_tree") \
                and c.args and self._is_stream(c.args[0]):
            if fn.attr == "_encode_tree":
                v = unparse(c.args[1]) if len(c.args) > 1 else "?"
                t = c.args[2] if len(c.args) > 2 else None
                return [("tree", self._typeref(t), v)]
            t = c.args[1] if len(c.args) > 1 else None
            g = c.args[2] if len(c.args) > 2 else None
            for kw in c.keywords:
                if kw.arg == "get_by_uuid":
                    g = kw.value
            self.forwarded_lookup.append((c, isinstance(g, ast.Name) and g.id == "get_by_uuid"))
            return [("tree", self._typeref(t))]
        # XCodec.encode(out, v) / XCodec.decode(raw, ...)
        if isinstance(fn, ast.Attribute) and fn.attr in ("encode", "decode") and c.args \
                and self._is_stream(c.args[0]) and isinstance(fn.value, ast.Name) \
                and fn.value.id.endswith("Codec"):
            codec = fn.value.id
            if fn.attr == "encode":
                v = c.args[1] if len(c.args) > 1 else None
                if codec == "Uint64Codec" and isinstance(v, ast.Call) \
                        and attr_path(v.func) == ("len",) and len(v.args) == 1:
                    return [("count", "len:" + unparse(v.args[0]))]
                return [("sub", codec, unparse(v) if v is not None else "?")]
            if codec in ("UUIDCodec", "OffsetCodec"):
                g = None
                for kw in c.keywords:
                    if kw.arg == "get_by_uuid":
                        g = kw.value
                self.forwarded_lookup.append((c, isinstance(g, ast.Name) and g.id == "get_by_uuid"))
            return [("sub", codec)]
        # out.write(X)
        if isinstance(fn, ast.Attribute) and fn.attr == "write" and self._is_stream(fn.value) \
                and len(c.args) == 1:
            return [self._written(c.args[0])]
        # wrappers around raw.read(n)
        rd = self._find_read(c)
        if rd is not None:
            if rd.args and self._is_decode_of(rd.args[0], "Uint64Codec") and self.direction == "decode" \
                    and self._expr(rd.args[0]) == [("sub", "Uint64Codec")]:
                # raw.read(Uint64Codec.decode(raw)): the count is read where it is used
                tag = "@%d:%d" % (rd.lineno, rd.col_offset)
                ev = self._read_event(c, rd)
                return [("u64var", tag), (ev[0], "var:" + tag) + tuple(ev[2:])]
            return [self._read_event(c, rd)]
        return None

    def _find_read(self, c: ast.Call) -> Optional[ast.Call]:
        """the single <stream>.read(..) call nested in ``c`` (or c itself)"""
        found = [n for n in ast.walk(c) if isinstance(n, ast.Call)
                 and isinstance(n.func, ast.Attribute) and n.func.attr == "read"
                 and self._is_stream(n.func.value)]
        if len(found) == 1:
            return found[0]
        if len(found) > 1:
            raise ShapeError("several reads in one expression: %s" % unparse(c)[:50])
        return None

    def _size(self, e: Optional[ast.AST]) -> Any:
        if e is None:
            return "all"
        if isinstance(e, ast.Constant) and isinstance(e.value, int):
            return e.value
        p = attr_path(e)
        if p and len(p) == 2 and p[0] in ("cls", "self"):
            return "cls." + p[1]
        if isinstance(e, ast.Name):
            return "var:" + e.id
        return "expr:" + unparse(e)[:30]

    def _kw(self, c: ast.Call, name: str, pos: Optional[int] = None) -> Optional[ast.AST]:
        for k in c.keywords:
            if k.arg == name:
                return k.value
        if pos is not None and len(c.args) > pos:
            return c.args[pos]
        return None

    def _const(self, e: Optional[ast.AST], default: Any = None) -> Any:
        if e is None:
            return default
        if isinstance(e, ast.Constant):
            return e.value
        p = attr_path(e)
        if p and len(p) == 2 and p[0] in ("cls", "self"):
            return "cls." + p[1]
        return "expr:" + unparse(e)[:30]

    def _read_event(self, outer: ast.Call, rd: ast.Call) -> Event:
        size = self._size(rd.args[0] if rd.args else None)
        # walk up from the read to ``outer`` looking at the wrappers
        cur: ast.AST = rd
        wrappers: List[ast.AST] = []
        while cur is not outer:
            cur = getattr(cur, "_parent")
            wrappers.append(cur)
        for w in wrappers:
            if isinstance(w, ast.Call):
                p = attr_path(w.func)
                if p == ("int", "from_bytes"):
                    return ("int", size, self._const(self._kw(w, "byteorder", 1), "big"),
                            self._const(self._kw(w, "signed"), False))
                if p and p[-1] == "unpack" and p[0] == "struct":
                    return ("struct", self._const(w.args[0] if w.args else None), size)
                if p == ("UUID",):
                    if any(k.arg == "bytes" for k in w.keywords):
                        return ("raw", size, "uuid")
                    return ("raw", size, "uuid?" + unparse(w)[:30])
                if isinstance(w.func, ast.Attribute) and w.func.attr == "decode":
                    enc = self._const(w.args[0] if w.args else self._kw(w, "encoding"), "utf-8")
                    return ("raw", size, "text:" + str(enc).lower().replace("_", "-"))
                if p == ("bool",):
                    continue
        return ("raw", size, "blob")

    def _written(self, b: ast.AST) -> Event:
        orig = b
        if isinstance(b, ast.Name) and b.id in self.alternatives:
            kinds = sorted({str(self._written(v)[1:3]) for v in self.alternatives[b.id]})
            if len(kinds) > 1:
                return ("raw", "bytes:" + b.id, "one-of:" + " | ".join(kinds))
        if isinstance(b, ast.Name) and b.id in self.locals:
            b = self.locals[b.id]
        if isinstance(b, ast.IfExp) and isinstance(b.body, ast.Constant) and isinstance(b.orelse, ast.Constant) \
                and isinstance(b.body.value, bytes) and isinstance(b.orelse.value, bytes) \
                and len(b.body.value) == len(b.orelse.value):
            # one of two literal byte strings of the same length
            return ("raw", len(b.body.value), "bool" if len(b.body.value) == 1 else "blob")
        if isinstance(b, ast.Call):
            p = attr_path(b.func)
            if isinstance(b.func, ast.Attribute) and b.func.attr == "to_bytes":
                return ("int", self._size(b.args[0] if b.args else self._kw(b, "length")),
                        self._const(self._kw(b, "byteorder", 1), "big"),
                        self._const(self._kw(b, "signed"), False), unparse(b.func.value))
            if p and p[0] == "struct" and p[-1] == "pack":
                return ("struct", self._const(b.args[0] if b.args else None), None)
            if p == ("bytes",) and len(b.args) == 1 and isinstance(b.args[0], ast.List) \
                    and len(b.args[0].elts) == 1:
                return ("raw", 1, "bool")
            if isinstance(b.func, ast.Attribute) and b.func.attr == "encode":
                enc = self._const(b.args[0] if b.args else self._kw(b, "encoding"), "utf-8")
                return ("raw", "bytes:" + unparse(orig), "text:" + str(enc).lower().replace("_", "-"),
                        unparse(b.func.value))
        p = attr_path(b)
        if p and p[-1] == "bytes":
            return ("raw", 16, "uuid")
        if isinstance(b, ast.Name) and b.id == self.value:
            return ("raw", "all", "blob")
        return ("raw", "bytes:" + unparse(orig), "expr:" + unparse(b)[:30])

    def _typeref(self, t: Optional[ast.AST]) -> Any:
        if t is None:
            return ("?",)
        if isinstance(t, ast.Name):
            return self.typevars.get(t.id, ("name", t.id))
        if isinstance(t, ast.Subscript) and isinstance(t.value, ast.Name) and t.value.id == "subtypes":
            return ("indexed", unparse(t.slice))
        return ("expr", unparse(t)[:30])


def normalise(events: List[Event], direction: str) -> Tuple[List[Event], List[str]]:
    """Direction-independent form + the R07.2 pairing problems found."""
    problems: List[str] = []
    out: List[Event] = []
    evs = list(events)
    i = 0
    while i < len(evs):
        e = evs[i]
        nxt = evs[i + 1] if i + 1 < len(evs) else None
        if e[0] == "count":        # encode side
            measured = e[1][4:]
            if nxt is None:
                problems.append("count of %s is followed by nothing" % measured)
                out.append(("count", "?"))
            elif nxt[0] == "loop":
                if nxt[2] != "iter:" + measured:
                    problems.append("count prefix measures len(%s) but the loop that follows "
                                    "iterates %s" % (measured, nxt[2]))
                out.append(("count", "elements"))
            elif nxt[0] == "raw":
                written = nxt[1][6:] if isinstance(nxt[1], str) and nxt[1].startswith("bytes:") else None
                if written != measured:
                    problems.append("count prefix measures len(%s) but the bytes written are %s"
                                    % (measured, written or nxt[1]))
                out.append(("count", "bytes"))
            else:
                problems.append("count of %s is not followed by what it counts" % measured)
                out.append(("count", "?"))
        elif e[0] == "u64var":     # decode side
            var = e[1]
            if nxt is not None and nxt[0] == "loop" and nxt[2] == "range:" + var:
                out.append(("count", "elements"))
            elif nxt is not None and nxt[0] == "raw" and nxt[1] == "var:" + var:
                out.append(("count", "bytes"))
            else:
                out.append(("sub", "Uint64Codec"))
        elif e[0] == "loop":
            body, pr = normalise(list(e[3]), direction)
            problems.extend(pr)
            out.append(("loop", e[1], tuple(body)))
        elif e[0] == "tree":
            tr = e[1]
            if tr[0] == "indexed":
                prev = evs[i - 1] if i > 0 else None
                if prev is not None and prev[0] == "int" and len(prev) > 4 and prev[4] == tr[1]:
                    tr = ("indexed", "the-index-on-the-wire")
                elif prev is not None and prev[0] == "u64var" and prev[1] == tr[1]:
                    tr = ("indexed", "the-index-on-the-wire")
            out.append(("tree", tr))
        elif e[0] == "int":
            out.append(("int", e[1], e[2], e[3]))
        elif e[0] == "struct":
            out.append(("struct", e[1]))
        elif e[0] == "raw":
            size = e[1]
            if isinstance(size, str) and (size.startswith("bytes:") or size.startswith("var:")):
                size = "counted"
            what = e[2]
            if size == 1 and what in ("bool", "blob"):
                what = "byte"
            out.append(("raw", size, what))
        elif e[0] == "sub":
            out.append(("sub", e[1]))
        elif e[0] == "alt":
            a, pa = normalise(list(e[1]), direction)
            b, pb = normalise(list(e[2]), direction)
            problems.extend(pa + pb)
            if a == b:
                out.extend(a)
            else:
                out.append(("alt", tuple(a), tuple(b)))
        else:
            out.append(e)
        i += 1
    return out, problems
