"""Shared codec facts for C07 / C08 / C14 (table, shapes, class constants)."""
from __future__ import annotations

import ast
import re
from typing import Any, Dict, List, Optional, Tuple

from ..model import AnalysisError, ClassInfo, FuncInfo, Repo, attr_path, const_str, dotted, walk_no_nested
from ..wireshape import Shape, ShapeError, normalise


class CodecFacts:
    def __init__(self, repo: Repo):
        self.repo = repo
        self.base = repo.cls("Codec")
        self.classes: List[ClassInfo] = [c for c in repo.classes.values()
                                         if c is not self.base and c.is_subclass_of(self.base)]
        self.ser = repo.cls("Serialization")
        self.table: Dict[str, Optional[ClassInfo]] = {}
        self.table_node: Optional[ast.AST] = None
        self._table()
        self._shape_cache: Dict[Tuple[str, str], Any] = {}

    def _table(self) -> None:
        init = self.ser.methods.get("__init__")
        if init is None:
            raise AnalysisError("anchor vanished: Serialization.__init__")
        for n in walk_no_nested(init.node):
            tgt = val = None
            if isinstance(n, ast.AnnAssign):
                tgt, val = n.target, n.value
            elif isinstance(n, ast.Assign) and len(n.targets) == 1:
                tgt, val = n.targets[0], n.value
            self.table_shared: Optional[str] = getattr(self, "table_shared", None)
            if tgt is not None and attr_path(tgt) == (init.self_name, "codecs") and not isinstance(val, ast.Dict):
                # the table lives at module level: ``dict(NAME)`` / ``NAME.copy()`` / ``{**NAME}``
                # (a per-instance copy) or ``NAME`` itself (every instance shares one table)
                src = val
                copied = False
                if isinstance(src, ast.Call) and isinstance(src.func, ast.Name) and src.func.id == "dict" and len(src.args) == 1:
                    src, copied = src.args[0], True
                elif isinstance(src, ast.Call) and isinstance(src.func, ast.Attribute) and src.func.attr == "copy":
                    src, copied = src.func.value, True
                elif isinstance(src, ast.Dict) and len(src.keys) == 1 and src.keys[0] is None:
                    src, copied = src.values[0], True
                if isinstance(src, ast.Name) and isinstance(self.ser.module.assigns.get(src.id), ast.Dict):
                    val = self.ser.module.assigns[src.id]
                    if not copied:
                        self.table_shared = src.id
            if tgt is not None and attr_path(tgt) == (init.self_name, "codecs") and isinstance(val, ast.Dict):
                self.table_node = n
                for k, v in zip(val.keys, val.values):
                    ks = const_str(k) if k is not None else None
                    if ks is None:
                        raise AnalysisError("non-literal key in the codec table")
                    d = dotted(v)
                    self.table[ks] = self.repo.resolve_name(self.ser.module, ".".join(d), None) if d else None
        if not self.table:
            raise AnalysisError("anchor vanished: Serialization.codecs table literal")

    def class_const(self, c: ClassInfo, name: str) -> Any:
        for k in c.mro_classes():
            v = k.class_assigns.get(name)
            if isinstance(v, ast.Constant):
                return v.value
        return None

    def provider(self, c: ClassInfo, direction: str) -> Optional[FuncInfo]:
        f = c.find_method(direction)
        if f is None or f.cls is self.base:
            return None
        return f

    def raw_shape(self, f: FuncInfo, direction: str) -> Shape:
        return Shape(f, direction)

    def norm_shape(self, c: ClassInfo, direction: str, concrete: bool = False,
                   depth: int = 0) -> Tuple[List[tuple], List[str], Optional[Shape]]:
        """normalised shape of class c in one direction; with ``concrete`` the
        ``cls.<const>`` parameters are substituted from c's class constants and
        ('sub', Codec) delegations are flattened."""
        f = self.provider(c, direction)
        if f is None:
            raise ShapeError("%s has no %s" % (c.qualname, direction))
        sh = Shape(f, direction)
        ev, problems = normalise(sh.events, direction)
        if concrete:
            ev = self._concretise(c, ev, direction, depth)
        return ev, problems, sh

    def _concretise(self, c: ClassInfo, ev: List[tuple], direction: str, depth: int) -> List[tuple]:
        out: List[tuple] = []
        for e in ev:
            if e[0] == "sub" and depth < 3:
                sub = self.repo.resolve_name(self.ser.module, e[1], None)
                if sub is None:
                    out.append(e)
                    continue
                inner, _, _ = self.norm_shape(sub, direction, True, depth + 1)
                out.extend(inner)
                continue
            if e[0] == "loop":
                out.append(("loop", e[1], tuple(self._concretise(c, list(e[2]), direction, depth))))
                continue
            e2 = []
            for x in e:
                if isinstance(x, str) and x.startswith("cls."):
                    e2.append(self.class_const(c, x[4:]))
                else:
                    e2.append(x)
            out.append(tuple(e2))
        return out


_FACTS: Dict[int, CodecFacts] = {}


def codec_facts(repo: Repo) -> CodecFacts:
    k = id(repo)
    if k not in _FACTS:
        _FACTS[k] = CodecFacts(repo)
    return _FACTS[k]
