"""Systematic sensitivity sweep: generate syntactic variants of python/gtirb/*.py
(statement deletion, comparison/boolean operator swaps, constant tweaks, attribute swaps),
analyse each variant with all 19 rule sets and list the ones no rule reports.

The sweep *analyses* variants (in-memory overlays); it never executes gtirb.  A surviving
variant is either behaviour-preserving (equivalent) or a gap in the rules; the list is a
work queue for the analyst, not a verdict about /repo.

    python -m gtirb_static.mutants [--jobs N] [--files a.py,b.py] [--out survivors.json]
"""
from __future__ import annotations

import ast
import importlib
import json
import multiprocessing as mp
import sys
import time
from pathlib import Path
from typing import Dict, Iterator, List, Optional, Tuple

from .model import AnalysisError, Repo, repo_root
from .report import Check, load_known

PROPS = ["C%02d" % i for i in range(1, 20)]
SKIP_FUNCS = {"__repr__", "__str__", "_attributes_repr", "nx"}

CMP_SWAP = {ast.Lt: ast.LtE, ast.LtE: ast.Lt, ast.Gt: ast.GtE, ast.GtE: ast.Gt, ast.Eq: ast.NotEq,
            ast.NotEq: ast.Eq, ast.Is: ast.IsNot, ast.IsNot: ast.Is, ast.In: ast.NotIn, ast.NotIn: ast.In}


def _segments(src: str, node: ast.AST) -> Tuple[int, int]:
    lines = src.splitlines(keepends=True)
    start = sum(len(l) for l in lines[:node.lineno - 1]) + len(lines[node.lineno - 1].encode()[:node.col_offset].decode())
    end = sum(len(l) for l in lines[:node.end_lineno - 1]) + len(lines[node.end_lineno - 1].encode()[:node.end_col_offset].decode())
    return start, end


def variants(rel: str, src: str) -> Iterator[Tuple[str, str]]:
    tree = ast.parse(src)
    for par in ast.walk(tree):
        for ch in ast.iter_child_nodes(par):
            ch._p = par  # type: ignore[attr-defined]

    def in_skipped(n: ast.AST) -> bool:
        cur = n
        while cur is not None:
            if isinstance(cur, ast.FunctionDef) and cur.name in SKIP_FUNCS:
                return True
            cur = getattr(cur, "_p", None)
        return False

    def in_function(n: ast.AST) -> Optional[str]:
        cur = n
        names = []
        while cur is not None:
            if isinstance(cur, (ast.FunctionDef, ast.ClassDef)):
                names.append(cur.name)
            cur = getattr(cur, "_p", None)
        return ".".join(reversed(names)) if names else None

    for n in ast.walk(tree):
        if in_skipped(n):
            continue
        where = in_function(n)
        if where is None:
            continue
        # 1. delete a simple statement (replace by pass)
        if isinstance(n, (ast.Expr, ast.Assign, ast.AugAssign, ast.AnnAssign, ast.Raise, ast.Return,
                          ast.Continue, ast.Delete)) and isinstance(getattr(n, "_p", None),
                                                                     (ast.FunctionDef, ast.If, ast.For, ast.While,
                                                                      ast.Try, ast.ExceptHandler, ast.With)):
            if isinstance(n, ast.Expr) and isinstance(n.value, ast.Constant):
                continue        # docstring
            if isinstance(n, ast.AnnAssign) and n.value is None:
                continue
            if isinstance(n, ast.Raise) and "NotImplementedError" in ast.unparse(n):
                continue
            a, b = _segments(src, n)
            yield ("%s:%d %s: delete `%s`" % (rel, n.lineno, where, ast.unparse(n).split("\n")[0][:60]),
                   src[:a] + "pass" + src[b:])
        # 2. comparison operator swap
        if isinstance(n, ast.Compare) and len(n.ops) >= 1:
            for i, op in enumerate(n.ops):
                new = CMP_SWAP.get(type(op))
                if new is None:
                    continue
                n2 = ast.Compare(left=n.left, ops=list(n.ops[:i]) + [new()] + list(n.ops[i + 1:]),
                                 comparators=n.comparators)
                a, b = _segments(src, n)
                yield ("%s:%d %s: `%s` -> `%s`" % (rel, n.lineno, where, ast.unparse(n)[:50], ast.unparse(n2)[:50]),
                       src[:a] + "(" + ast.unparse(n2) + ")" + src[b:])
        # 3. boolean operator swap / not removal
        if isinstance(n, ast.BoolOp):
            n2 = ast.BoolOp(op=ast.Or() if isinstance(n.op, ast.And) else ast.And(), values=n.values)
            a, b = _segments(src, n)
            yield ("%s:%d %s: and<->or in `%s`" % (rel, n.lineno, where, ast.unparse(n)[:50]),
                   src[:a] + "(" + ast.unparse(n2) + ")" + src[b:])
        if isinstance(n, ast.UnaryOp) and isinstance(n.op, ast.Not):
            a, b = _segments(src, n)
            yield ("%s:%d %s: drop not in `%s`" % (rel, n.lineno, where, ast.unparse(n)[:50]),
                   src[:a] + "(" + ast.unparse(n.operand) + ")" + src[b:])
        # 4. integer constant tweak in arithmetic
        if isinstance(n, ast.BinOp) and isinstance(n.op, (ast.Add, ast.Sub)) and \
                isinstance(n.right, ast.Constant) and isinstance(n.right.value, int) and not isinstance(n.right.value, bool):
            a, b = _segments(src, n)
            yield ("%s:%d %s: drop `%s` constant" % (rel, n.lineno, where, ast.unparse(n)[:50]),
                   src[:a] + "(" + ast.unparse(n.left) + ")" + src[b:])
        # 5. if-condition forced
        if isinstance(n, ast.If) and not isinstance(n.test, ast.Constant):
            a, b = _segments(src, n.test)
            if "TYPE_CHECKING" in ast.unparse(n.test):
                continue
            yield ("%s:%d %s: condition `%s` forced True" % (rel, n.lineno, where, ast.unparse(n.test)[:50]),
                   src[:a] + "True" + src[b:])
            yield ("%s:%d %s: condition `%s` forced False" % (rel, n.lineno, where, ast.unparse(n.test)[:50]),
                   src[:a] + "False" + src[b:])
        # 6. keyword argument dropped from a call
        if isinstance(n, ast.Call) and n.keywords and len(n.keywords) <= 8:
            for k in n.keywords:
                if k.arg is None:
                    continue
                n2 = ast.Call(func=n.func, args=n.args, keywords=[x for x in n.keywords if x is not k])
                a, b = _segments(src, n)
                yield ("%s:%d %s: drop keyword %s= from `%s`" % (rel, n.lineno, where, k.arg, ast.unparse(n.func)[:30]),
                       src[:a] + ast.unparse(n2) + src[b:])


_MODS = None


def _run_one(args: Tuple[str, str, str]) -> Tuple[str, List[str], Optional[str]]:
    rel, desc, new_src = args
    global _MODS
    if _MODS is None:
        _MODS = {p: importlib.import_module("gtirb_static.rules.%s" % p.lower()) for p in PROPS}
    try:
        ast.parse(new_src)
    except SyntaxError:
        return desc, ["syntax"], None
    known = load_known()
    caught: List[str] = []
    err = None
    try:
        repo = Repo(overlay={rel: new_src})
    except AnalysisError as e:
        return desc, ["analysis-error"], str(e)
    for p in PROPS:
        try:
            from .runner import run_rules
            chk = run_rules(p, repo, "quick")
            v = [x for x in chk.violations() if (p, x.rule, x.construct) not in known]
            if v:
                caught.append(p)
            elif chk.floor_failures:
                caught.append(p + "(floor)")
        except AnalysisError as e:
            caught.append(p + "(exit2)")
            err = str(e)
        except Exception as e:  # a crash of the analyser is a finding about the analyser
            caught.append(p + "(CRASH %s)" % type(e).__name__)
            err = repr(e)
    return desc, caught, err


def main() -> int:
    argv = sys.argv[1:]
    jobs = int(argv[argv.index("--jobs") + 1]) if "--jobs" in argv else 16
    out = argv[argv.index("--out") + 1] if "--out" in argv else "mutant_survivors.json"
    only = argv[argv.index("--files") + 1].split(",") if "--files" in argv else None
    root = repo_root()
    work: List[Tuple[str, str, str]] = []
    for p in sorted((root / Repo.PKG).glob("*.py")):
        if only and p.name not in only:
            continue
        rel = "%s/%s" % (Repo.PKG, p.name)
        src = p.read_text()
        for desc, new in variants(rel, src):
            if new != src:
                work.append((rel, desc, new))
    t0 = time.time()
    print("%d variants" % len(work), flush=True)
    survivors: List[str] = []
    weak: List[Tuple[str, List[str]]] = []
    crashes: List[Tuple[str, List[str], Optional[str]]] = []
    n = 0
    with mp.Pool(jobs) as pool:
        for desc, caught, err in pool.imap_unordered(_run_one, work, chunksize=4):
            n += 1
            real = [c for c in caught if "(" not in c]
            if any("CRASH" in c for c in caught):
                crashes.append((desc, caught, err))
            if caught == ["syntax"]:
                continue
            if not caught:
                survivors.append(desc)
            elif not real:
                weak.append((desc, caught))
            if n % 200 == 0:
                print("%d/%d  survivors=%d weak=%d crashes=%d  %.0fs" % (
                    n, len(work), len(survivors), len(weak), len(crashes), time.time() - t0), flush=True)
    res = {"variants": len(work), "survivors": sorted(survivors), "only_exit2_or_floor": sorted(weak),
           "crashes": crashes, "wall_s": round(time.time() - t0, 1)}
    Path(out).write_text(json.dumps(res, indent=1))
    print("done: %d variants, %d survivors, %d only-exit2/floor, %d crashes -> %s"
          % (len(work), len(survivors), len(weak), len(crashes), out))
    return 0


if __name__ == "__main__":
    sys.exit(main())
