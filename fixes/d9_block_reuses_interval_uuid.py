import gtirb, io
ir = gtirb.IR()
m = gtirb.Module(name="m"); ir.modules.append(m)
s = gtirb.Section(name="s"); m.sections.add(s)
bi = gtirb.ByteInterval(size=8, contents=b"\0"*8); s.byte_intervals.add(bi)
b = gtirb.CodeBlock(size=4, offset=0); bi.blocks.add(b)
d = gtirb.DataBlock(size=2, offset=4); bi.blocks.add(d)
# a valid file round-trips
buf = io.BytesIO(); ir.save_protobuf_file(buf); buf.seek(0)
ir1 = gtirb.IR.load_protobuf_file(buf)
assert ir1.deep_eq(ir) and ir.deep_eq(ir1)
bi1 = next(iter(next(iter(ir1.modules[0].sections)).byte_intervals))
assert {x.uuid for x in bi1.blocks} == {b.uuid, d.uuid} and all(ir1.get_by_uuid(x.uuid) is x for x in bi1.blocks)
assert ir1.get_by_uuid(bi1.uuid) is bi1
p = ir._to_protobuf()
pbi = p.modules[0].sections[0].byte_intervals[0]
for blk in pbi.blocks:
    if blk.HasField("code"):
        blk.code.uuid = pbi.uuid
buf = io.BytesIO(); buf.write(b"GTIRB\0\0" + bytes([gtirb.version.PROTOBUF_VERSION])); buf.write(p.SerializeToString()); buf.seek(0)
try:
    ir2 = gtirb.IR.load_protobuf_file(buf)
except Exception as e:
    print("rejected:", type(e).__name__); raise SystemExit(0)
bi2 = next(iter(next(iter(ir2.modules[0].sections)).byte_intervals))
assert ir2.get_by_uuid(bi2.uuid) is bi2, "loaded an IR whose interval is not in the UUID table"
