"""C10 — Symbol lookups by name and by referent track every change."""
from __future__ import annotations

import ast
from typing import Dict, List, Optional, Set, Tuple

from ..cfg import CFG
from ..model import AnalysisError, attr_path, expand_path, local_aliases, unparse, walk_no_nested
from ..report import Check
from ..terms import OutsideFragment, function_term, show
from .lookups import _notifying, notify_protocol
from .ownership import ownership

RULES = {
    "R10.1": "index key subset of notifying attributes: name and the payload behind referent are "
             "notify-parent attributes of Symbol whose parent is the module; value/referent "
             "setters assign only the payload",
    "R10.2": "add/discard mirror: _index_add and _index_discard touch the same indexes under the "
             "same guard with the same keys; discard drops emptied buckets; nobody else writes them",
    "R10.3": "membership maintains the index (symbol set primitives) and the notify protocol",
    "R10.4": "lookups read the maintained index of the right module with the right key",
}
INDEXES = ("_symbol_name_index", "_symbol_referent_index")


def run(chk: Check) -> None:
    chk.explanation = (
        "Interleavings of renames, payload changes and moves are discharged by ownership: the two "
        "per-module indexes are written only by _index_add/_index_discard, which mirror each "
        "other; every attribute their keys read notifies the module; the symbol-set primitives "
        "call them on every path.  Set semantics of the buckets is a builtin fact.")
    for k, v in RULES.items():
        chk.rule(k, v)
    repo = chk.repo
    own = ownership(repo)
    mod = repo.cls("Module")
    sym = repo.cls("Symbol")
    add = mod.methods.get("_index_add")
    dis = mod.methods.get("_index_discard")
    if add is None or dis is None:
        raise AnalysisError("anchor vanished: Module._index_add/_index_discard")
    chk.saw(add)
    chk.saw(dis)

    # R10.1 ---------------------------------------------------------------
    node_param = add.param_names()[1]
    key_attrs: Set[str] = set()
    for f in (add, dis):
        p = f.param_names()[1]
        for n in walk_no_nested(f.node):
            if isinstance(n, ast.Attribute) and isinstance(n.value, ast.Name) and n.value.id == p:
                key_attrs.add(n.attr)
    for a in sorted(key_attrs):
        problems = _notifying(chk, own, sym, a, mod, 0)
        chk.ob("R10.1", "Module-symbol-index:key(Symbol.%s)" % a, not problems, sym.loc(),
               "symbol index key Symbol.%s can change without notifying the module: %s"
               % (a, "; ".join(problems)), 3)
    chk.floor("R10.1", "symbol index key attributes", len(key_attrs), 2)
    for pname in ("value", "referent"):
        p = sym.props.get(pname)
        if p is None or p.setter is None:
            continue
        chk.saw(p.setter)
        me = p.setter.self_name
        stores = [attr_path(t) for n in walk_no_nested(p.setter.node)
                  if isinstance(n, (ast.Assign, ast.AugAssign, ast.AnnAssign))
                  for t in (n.targets if isinstance(n, ast.Assign) else [n.target])]
        ok = bool(stores) and all(s is not None and len(s) == 2 and s[0] == me
                                  and sym.find_indexed(s[1]) is not None for s in stores)
        chk.ob("R10.1", "Symbol.%s:setter-notifies" % pname, ok, p.setter.loc(),
               "the %s setter must store through a notify-parent attribute only (stores: %s)"
               % (pname, stores), 2)
        g = p.getter
        if g is not None:
            reads = {n.attr for n in walk_no_nested(g.node) if isinstance(n, ast.Attribute)
                     and attr_path(n.value) == (g.self_name,)}
            st = {s[1] for s in stores if s}
            chk.ob("R10.1", "Symbol.%s:getter-reads-what-setter-stores" % pname, st <= reads, g.loc(),
                   "the %s getter reads %s but the setter stores %s" % (pname, sorted(reads), sorted(st)), 2)

    for pname, want_block in (("value", False), ("referent", True)):
        pr = sym.props.get(pname)
        if pr is None or pr.getter is None:
            continue
        g = pr.getter
        chk.saw(g)
        cfgp = CFG(g.node)
        me = g.self_name
        pay = cfgp.nodes_where(lambda n: isinstance(n, ast.Return) and n.value is not None
                               and attr_path(n.value) == (me, "_payload"))
        isblk: Set[int] = set()
        for tn, i in cfgp.info.items():
            if i.kind == "test" and isinstance(i.ast, ast.Call) and attr_path(i.ast.func) == ("isinstance",) \
                    and attr_path(i.ast.args[0]) == (me, "_payload") and "Block" in unparse(i.ast.args[1]):
                for b in cfgp.g.successors(tn):
                    bi_ = cfgp.info[b]
                    if bi_.kind == "branch" and bi_.value == want_block:
                        isblk.add(b)
        ok = bool(pay) and bool(isblk) and all(cfgp.path_avoiding(cfgp.entry, p_, isblk) is None for p_ in pay)
        chk.ob("R10.1", "Symbol.%s:payload-partition" % pname, ok, g.loc(),
               "Symbol.%s must be the payload exactly when it is%s a Block (and None otherwise): value "
               "and referent partition the one stored payload the indexes are keyed by"
               % (pname, "" if want_block else " not"), 2)

    # R10.2 ---------------------------------------------------------------
    def touched(f) -> Tuple[Set[Tuple[str, str]], Dict[Tuple[str, str], str], List[str]]:
        me, p = f.self_name, f.param_names()[1]
        al = local_aliases(f.node)
        out: Set[Tuple[str, str]] = set()
        conds: Dict[Tuple[str, str], str] = {}
        guards: List[str] = []
        flow = CFG(f.node)
        for n in walk_no_nested(f.node):
            if isinstance(n, ast.Subscript):
                b = expand_path(n.value, al)
                if b and len(b) == 2 and b[0] == me and b[1] in INDEXES:
                    ks = n.slice
                    # a key held in a local bound once stands for what it was bound to
                    if isinstance(ks, ast.Name) and ks.id in al and ks.id != p:
                        ks = al[ks.id]
                    k = unparse(ks).replace(p, "$")
                    out.add((b[1], k))
                    # what is known to hold where the index is touched (guards in any spelling)
                    cs = [c for c in flow.canonical_facts(n, {p: "$"}) if "isinstance" not in c]
                    prev_c = conds.get((b[1], k))
                    cur_c = " & ".join(cs)
                    if prev_c is None or len(cur_c) < len(prev_c):
                        conds[(b[1], k)] = cur_c
            if isinstance(n, ast.Call) and attr_path(n.func) == ("isinstance",) and len(n.args) == 2 \
                    and attr_path(n.args[0]) == (p,):
                guards.append(unparse(n.args[1]))
        return out, conds, guards
    ta, ca, ga = touched(add)
    td, cd, gd = touched(dis)
    chk.ob("R10.2", "Module._index_add~_index_discard:same-keys", ta == td and bool(ta), add.loc(),
           "_index_add touches %s but _index_discard touches %s: entries would be added under one "
           "key and removed under another" % (sorted(ta), sorted(td)), 3)
    chk.ob("R10.2", "Module._index_add~_index_discard:same-conditions", ca == cd, add.loc(),
           "_index_add and _index_discard apply different conditions to the same index: %s vs %s"
           % (ca, cd), 3)
    # the conditions themselves may only ask whether the symbol has the key (a referent): a
    # condition on anything else (the block's module, the module's IR, ...) can change later
    # without the index hearing of it
    for f_, conds_ in ((add, ca), (dis, cd)):
        for (idx_, key_), cond_ in conds_.items():
            atoms_ = [a_ for a_ in cond_.split(" & ") if a_]
            foreign = [a_ for a_ in atoms_ if not (
                a_.lstrip("+-").startswith("truthy $.") and a_.lstrip("+-").count(".") == 1) and
                not ("truthy " in a_ and a_.lstrip("+-").split(" ", 1)[1].isidentifier())
                and "len(" not in a_]
            chk.ob("R10.2", "%s:%s:condition-on-own-key" % (f_.qualname, idx_), not foreign, f_.loc(),
                   "%s maintains %s under the condition %s: whether a symbol is indexed may only depend "
                   "on the symbol's own key attributes, which notify the module when they change"
                   % (f_.qualname, idx_, " and ".join(foreign)), 2)
    chk.ob("R10.2", "Module._index_add~_index_discard:same-kind-guard", ga == gd and "Symbol" in ga,
           add.loc(), "both must act on Symbol instances only (%s vs %s)" % (ga, gd), 2)
    chk.ob("R10.2", "Module-symbol-indexes:both", {i for i, _ in ta} == set(INDEXES), add.loc(),
           "both the name index and the referent index must be maintained (%s)" % sorted(ta), 2)
    # add adds <node>, discard discards <node> and deletes emptied buckets
    for f, meths in ((add, ("add",)), (dis, ("discard", "remove"))):
        p = f.param_names()[1]
        calls = [c for c in walk_no_nested(f.node) if isinstance(c, ast.Call)
                 and isinstance(c.func, ast.Attribute) and c.func.attr in meths
                 and len(c.args) == 1 and attr_path(c.args[0]) == (p,)]
        chk.ob("R10.2", "%s:bucket-%s" % (f.qualname, meths[0]), len(calls) >= len(set(INDEXES)),
               f.loc(), "%s must %s the symbol in each index bucket (found %d call(s))"
               % (f.qualname, meths[0], len(calls)), 2)
    dels = [n for n in walk_no_nested(dis.node) if isinstance(n, ast.Delete)]
    ok = len(dels) >= 2
    flow_d = CFG(dis.node)
    for d_ in dels:
        # the bucket is known to be empty where it is deleted: '-truthy <bucket>' or '+Eq 0 len(..)'
        facts_ = flow_d.canonical_facts(d_)
        ok = ok and any((c.startswith("-truthy ") and "(" not in c) or
                        (c.startswith("+Eq ") and "len(" in c and " 0" in c + " ") for c in facts_)
    chk.ob("R10.2", "Module._index_discard:drops-empty-buckets", ok, dis.loc(),
           "_index_discard must delete a bucket once it is empty (symbols_named / references "
           "would otherwise see stale empty buckets accumulate)", 1)
    # who may write the indexes
    uses = 0
    for f in repo.all_functions():
        for n in walk_no_nested(f.node):
            if isinstance(n, ast.Attribute) and n.attr in INDEXES:
                uses += 1
                par = getattr(n, "_parent", None)

                def _reads(x: ast.AST, depth: int = 0) -> bool:
                    """the expression x (the index, or a local bound to it) is only looked at"""
                    px = getattr(x, "_parent", None)
                    if isinstance(px, ast.Attribute) and px.attr in ("get", "keys", "values", "items"):
                        return True
                    if isinstance(px, (ast.If, ast.While, ast.IfExp)) and px.test is x:
                        return True
                    if isinstance(px, ast.UnaryOp) and isinstance(px.op, ast.Not):
                        return True
                    if isinstance(px, ast.BoolOp):
                        return _reads(px, depth)
                    if isinstance(px, ast.Compare) and len(px.ops) == 1 and isinstance(px.ops[0], (ast.In, ast.NotIn)) \
                            and px.comparators[0] is x:
                        return True
                    if isinstance(px, ast.Call) and attr_path(px.func) == ("len",) and len(px.args) == 1:
                        return True
                    if isinstance(px, (ast.Assign, ast.AnnAssign)) and px.value is x and depth == 0:
                        tg = px.targets[0] if isinstance(px, ast.Assign) and len(px.targets) == 1 else getattr(px, "target", None)
                        if isinstance(tg, ast.Name):
                            stores_ = [m for m in walk_no_nested(f.node) if isinstance(m, ast.Name) and m.id == tg.id
                                       and not isinstance(m.ctx, ast.Load)]
                            loads_ = [m for m in walk_no_nested(f.node) if isinstance(m, ast.Name) and m.id == tg.id
                                      and isinstance(m.ctx, ast.Load)]
                            return len(stores_) == 1 and all(_reads(m, 1) for m in loads_)
                    return False
                read_only = _reads(n)
                allowed = f.cls is mod and f.name in ("__init__", "_index_add", "_index_discard")
                chk.ob("R10.2", "%s:use(%s)" % (f.qualname, n.attr), allowed or read_only, f.loc(n),
                       "%s touches %s other than by a read through .get: only Module.__init__, "
                       "_index_add and _index_discard may write the symbol indexes" % (f.qualname, n.attr), 1)
    chk.floor("R10.2", "uses of the symbol indexes", uses, 5)
    init = mod.methods["__init__"]
    for idx in INDEXES:
        per_instance = any(isinstance(n, (ast.Assign, ast.AnnAssign)) and
                           attr_path(n.targets[0] if isinstance(n, ast.Assign) else n.target) == (init.self_name, idx)
                           and (isinstance(n.value, ast.Dict) or (
                               isinstance(n.value, ast.Call) and
                               (attr_path(n.value.func) or ("",))[-1] in ("defaultdict", "dict")))
                           for n in walk_no_nested(init.node))
        chk.ob("R10.2", "Module.__init__:creates(%s)" % idx, per_instance and idx not in mod.class_assigns,
               init.loc(), "%s must be a per-module instance attribute created in __init__" % idx, 1)

    # the two tables hold symbols only: whatever changes one of them does so for a node that was
    # just tested to be a Symbol (a clean-up written for another kind of node must not reach them)
    MUT = ("add", "discard", "remove", "pop", "popitem", "clear", "update", "setdefault", "__setitem__", "__delitem__")
    n_mut = 0
    for g in mod.methods.values():
        if g.name == "__init__":
            continue
        cfgm = None
        for x in walk_no_nested(g.node):
            hit = None
            if isinstance(x, ast.Call) and isinstance(x.func, ast.Attribute) and x.func.attr in MUT:
                base = x.func.value
                while isinstance(base, (ast.Subscript, ast.Call)):
                    base = base.value if isinstance(base, ast.Subscript) else base.func
                    if isinstance(base, ast.Attribute) and base.attr in ("get", "setdefault"):
                        base = base.value
                if isinstance(base, ast.Attribute) and base.attr in INDEXES:
                    hit = x
            elif isinstance(x, (ast.Assign, ast.Delete, ast.AugAssign)):
                tg = x.targets if not isinstance(x, ast.AugAssign) else [x.target]
                for t in tg:
                    b2 = t
                    while isinstance(b2, ast.Subscript):
                        b2 = b2.value
                    if isinstance(b2, ast.Attribute) and b2.attr in INDEXES and t is not b2:
                        hit = x
            if hit is None:
                continue
            n_mut += 1
            chk.saw(g)
            if cfgm is None:
                cfgm = CFG(g.node)
            try:
                facts_ = cfgm.facts_at(cfgm.node_of(hit))
            except AnalysisError:
                continue
            is_sym = any(isinstance(t_, ast.Call) and attr_path(t_.func) == ("isinstance",) and v_
                         and "Symbol" in unparse(t_.args[1]) for t_, v_ in facts_ if not isinstance(t_, ast.stmt))
            other_kind = [unparse(t_.args[1]) for t_, v_ in facts_ if not isinstance(t_, ast.stmt)
                          and isinstance(t_, ast.Call) and attr_path(t_.func) == ("isinstance",) and v_
                          and "Symbol" not in unparse(t_.args[1])]
            chk.ob("R10.2", "%s:index-touched-for-symbols-only(%s)" % (g.qualname, unparse(hit)[:30].replace(" ", "")),
                   is_sym and not other_kind, g.loc(hit),
                   "%s changes a symbol index (%s) %s: the tables are keyed for symbols only"
                   % (g.qualname, unparse(hit)[:50],
                      "for a node known to be a %s" % other_kind[0] if other_kind else "without having tested that the node is a Symbol"), 2)
    chk.floor("R10.2", "statements changing a symbol index", n_mut, 3)
    # lookups by name / referent write nothing (a memo goes stale when a block moves)
    from .c12 import _purity as _lookup_purity
    from ..types import TypeEnv
    sub = chk.sub()
    try:
        _lookup_purity(sub, TypeEnv(repo), repo.cls("LazyIntervalTree"))
        chk.adopt(sub, lambda o: "references" in o.construct or "symbols_named" in o.construct, "R10.4")
    except AnalysisError:
        pass
    # R10.3 ---------------------------------------------------------------
    n = 0
    for prop, rule, construct, ok, loc, msg, facts in own.obs:
        if prop == "C10":
            chk.ob("R10.3", construct, ok, loc, msg, facts)
            n += 1
    chk.floor("R10.3", "index halves of the node-set primitives", n, 2)
    for prop, rule, construct, ok, loc, msg, facts in own.obs:
        if prop == "C04" and rule in ("R03.3", "R03.5") and ("_NodeSet" in construct or "SetWrapper" in construct):
            chk.ob("R10.3", construct, ok, loc, msg, facts)
    notify_protocol(chk, "R10.3")
    # Module._index_add/_index_discard are what the descriptor calls
    for ia in ("name", "_payload"):
        d = sym.find_indexed(ia)
        chk.ob("R10.3", "Symbol.%s:declared-indexed" % ia, d is not None, sym.loc(),
               "Symbol.%s is not declared through the notify-parent descriptor" % ia, 1)

    # R10.4 ---------------------------------------------------------------
    sn = mod.methods.get("symbols_named")
    if sn is None:
        chk.ob("R10.4", "Module.symbols_named", False, mod.loc(), "lookup vanished")
    else:
        chk.saw(sn)
        p = sn.param_names()[1]
        gets = [c for c in walk_no_nested(sn.node) if isinstance(c, ast.Call)
                and isinstance(c.func, ast.Attribute) and c.func.attr == "get"
                and attr_path(c.func.value) == (sn.self_name, "_symbol_name_index")]
        subs = [s for s in walk_no_nested(sn.node) if isinstance(s, ast.Subscript)
                and attr_path(s.value) == (sn.self_name, "_symbol_name_index")]
        if gets or subs:
            keyed = all(c.args and attr_path(c.args[0]) == (p,) for c in gets) and \
                all(attr_path(s.slice) == (p,) for s in subs)
            chk.ob("R10.4", "Module.symbols_named:keyed-by-argument", keyed, sn.loc(),
                   "symbols_named must look its own argument up in the name index", 2)
            other = [n for n in walk_no_nested(sn.node) if isinstance(n, ast.Attribute)
                     and n.attr == "_symbol_referent_index"]
            chk.ob("R10.4", "Module.symbols_named:right-index", not other, sn.loc(),
                   "symbols_named must read the name index", 1)
        else:
            scan = any(isinstance(n, ast.Attribute) and n.attr == "symbols" for n in walk_no_nested(sn.node))
            chk.ob("R10.4", "Module.symbols_named:scan", scan, sn.loc(),
                   "symbols_named neither reads the name index nor scans self.symbols", 1)
    blk = repo.cls("Block")
    rp = blk.props.get("references")
    if rp is None or rp.getter is None:
        chk.ob("R10.4", "Block.references", False, blk.loc(), "lookup vanished")
    else:
        g = rp.getter
        chk.saw(g)
        me = g.self_name
        al = local_aliases(g.node)
        gets = [c for c in walk_no_nested(g.node) if isinstance(c, ast.Call)
                and isinstance(c.func, ast.Attribute) and c.func.attr == "get"
                and isinstance(c.func.value, ast.Attribute) and c.func.value.attr == "_symbol_referent_index"]
        ok = len(gets) == 1 and expand_path(gets[0].func.value.value, al) == (me, "module") \
            and gets[0].args and attr_path(gets[0].args[0]) == (me,)
        chk.ob("R10.4", "Block.references:own-module-index", ok, g.loc(),
               "Block.references must look the block itself up in the referent index of the "
               "block's *current* module (self.module)", 3)
        cfg = CFG(g.node)
        if gets:
            gn = cfg.node_of(gets[0])
            # guarded by self.module being truthy / not None
            guard = set()
            for n, i in cfg.info.items():
                if i.kind == "test" and i.ast is not None and expand_path(
                        i.ast if not isinstance(i.ast, ast.Compare) else i.ast.left, al) == (me, "module"):
                    for b in cfg.g.successors(n):
                        bi = cfg.info[b]
                        if bi.kind != "branch":
                            continue
                        if isinstance(i.ast, ast.Compare):
                            present = bi.value == isinstance(i.ast.ops[0], ast.IsNot)
                        else:
                            present = bool(bi.value)
                        if present:
                            guard.add(b)
            ok = bool(guard) and cfg.path_avoiding(cfg.entry, gn, guard) is None
            chk.ob("R10.4", "Block.references:no-module-guard", ok, g.loc(),
                   "Block.references must yield nothing when the block has no module", 2)
