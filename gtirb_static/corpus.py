"""E10b corpus audit (thorough tier): the stored patches are replayed against the *current* tree,
in memory.  Every behaviour-preserving refactoring under /verif/benign must leave the check silent;
every seeded change under /verif/seeded must be reported by the check of the property it breaks
(except the ones DESIGN.md declares undecided).  A patch that no longer applies to the tree under
analysis is skipped and counted, never guessed at.  Nothing is executed: a patch is applied to
copies of the files it names (a scratch directory under $TMPDIR, removed at once) and the result is
analysed as an overlay.

    python -m gtirb_static.corpus [C01 ...]
"""
from __future__ import annotations

import importlib
import json
import multiprocessing as mp
import os
import shutil
import subprocess
import sys
import tempfile
from pathlib import Path
from typing import Any, Dict, List, Optional, Tuple

from .model import AnalysisError, Repo, repo_root
from .report import Check, load_known

VERIF = Path(__file__).resolve().parent.parent
# seeded changes whose defect is outside what the rules decide (DESIGN.md 8.5)
UNDECIDED: Dict[str, str] = {
    "r7-C13-3": "a new per-interval skip test for strided queries with a slip in its modular arithmetic "
                "(first += step - rem): the union over the children is no longer unconditional, and whether "
                "the skip condition is right is arithmetic with %, which the linear rules do not decide — the "
                "check reports 'cannot decide' (exit 2), not a violation",
    "r9-C13-3": "a second pass for empty intervals (byte_intervals_at, initialized_size == 0) is added to "
                "Section.symbolic_expressions_at: whether the two passes visit an interval twice depends on the "
                "relation between initialized_size and size, which the composition rule does not decide - the "
                "check reports 'cannot decide' (exit 2), not a violation",
    "r9-C15-1": "a fast path for flat parameter lists names the tokens inside a generator expression whose "
                "filter is not followed (consecutive commas slip through): exit 2, not a violation",
    "r8-C05-3": "the 'at' tree helper trims a strided query to its last member with a floor division "
                "((stop - start) // step): arithmetic outside the linear fragment of the boundary rules - "
                "the check reports 'cannot decide' (exit 2), not a violation",
}
# confirmed seeded changes that no rule reports: kept in the corpus, listed in the evidence and in
# DESIGN.md as what the static rules do not reach; they do not fail the audit (the audit guards
# against *regressions*) and are reported on every thorough run
NOT_DETECTED: Dict[str, str] = {
    "r9-C16-3": "ListWrapper.__setitem__ gains a same-size fast path that assigns element by element through "
                "self[index] = value: positions computed up front go stale when the _add hook takes an "
                "already-owned module out of the list.  R16.4b follows stores on self._data, not the wrapper's "
                "own item assignment used re-entrantly",
}
# seeded changes whose author demonstrated them through the property they were asked about, but
# which leave that property's subject untouched and break another one: the check of the property
# that is really broken must report them
REASSIGNED = {
    "r6-C18-2": ("C02", "deep_eq itself is unchanged: the loader decides the presence of an edge label by its "
                        "content (ListFields), so a saved all-default label is lost on load (C02/C01)"),
    "r6-C18-3": ("C02", "deep_eq itself is unchanged: the writer drops Symbol.at_end for symbols without a "
                        "referent (C02/C01)"),
    "r9-C18-1": ("C02", "deep_eq itself is unchanged: the reader interns decoded symbolic expressions, so attribute "
                        "flags leak between entries of the loaded copy (C02/C01)"),
    "r9-C18-2": ("C02", "deep_eq itself is unchanged: the reader replaces an Undefined byte order by a guess (C02/C01)"),
    "r9-C18-3": ("C02", "deep_eq itself is unchanged: the writer keys blocks by (offset, size) and drops one of two "
                        "blocks covering the same bytes (C02/C01)"),
    "r8-C18-1": ("C02", "deep_eq itself is unchanged: the writer reuses one scratch SymbolicExpression message, so "
                        "attribute flags of earlier expressions leak into later ones in the saved file (C02/C01)"),
    "r7-C18-2": ("C02", "deep_eq itself is unchanged: the writer drops an entry point that belongs to another "
                        "module of the IR (C02/C01)"),
}


def patch_overlay(patch: Path) -> Optional[Dict[str, str]]:
    root = repo_root()
    files: List[str] = []
    keep: List[str] = []
    cur: List[str] = []
    use = False
    for line in patch.read_text(errors="replace").splitlines(keepends=True):
        if line.startswith("diff --git "):
            if use:
                keep.extend(cur)
            cur, use = [], ("python/gtirb/" in line)
        if line.startswith("+++ b/") and "python/gtirb/" in line:
            files.append(line[6:].strip())
        cur.append(line)
    if use:
        keep.extend(cur)
    if not files:
        return None
    tmp = Path(tempfile.mkdtemp(prefix="gtirb-static-"))
    try:
        for rel in files:
            src = root / rel
            dst = tmp / rel
            dst.parent.mkdir(parents=True, exist_ok=True)
            if src.is_file():
                shutil.copy(src, dst)
        (tmp / "the.patch").write_text("".join(keep))
        r = subprocess.run(["patch", "-s", "-p1", "-f", "-d", str(tmp), "-i", str(tmp / "the.patch")],
                           capture_output=True, text=True)
        if r.returncode != 0:
            return None
        out: Dict[str, str] = {}
        for rel in files:
            p = tmp / rel
            if p.is_file():
                out[rel] = p.read_text(errors="replace")
        return out
    finally:
        shutil.rmtree(tmp, ignore_errors=True)


def _one(args: Tuple[str, str, List[str]]) -> Tuple[str, str, Dict[str, Any]]:
    kind, path, props = args
    ov = patch_overlay(Path(path))
    if ov is None:
        return kind, path, {"skipped": True}
    known = load_known()
    res: Dict[str, Any] = {"skipped": False, "reports": {}, "errors": {}}
    try:
        repo = Repo(overlay=ov)
    except AnalysisError as e:
        for p in props:
            res["errors"][p] = str(e)
        return kind, path, res
    except (RecursionError, Exception) as e:
        import traceback
        tb = traceback.extract_tb(e.__traceback__)
        where = "%s:%d %s" % (tb[-1].filename.rsplit("/", 1)[-1], tb[-1].lineno, tb[-1].name) if tb else "?"
        for p in props:
            res["errors"][p] = "internal error %s at %s (normal form)" % (type(e).__name__, where)
        return kind, path, res
    from .runner import run_rules
    for p in props:
        try:
            chk = run_rules(p, repo, "quick")
            v = [x for x in chk.violations() if (p, x.rule, x.construct) not in known]
            res["reports"][p] = ["%s %s" % (x.rule, x.construct) for x in v][:4]
            if not v and chk.undecided():
                u = chk.undecided()[0]
                res["errors"][p] = "cannot decide %s %s" % (u.rule, u.construct)
            elif not v and chk.floor_failures:
                res["errors"][p] = chk.floor_failures[0]
        except AnalysisError as e:
            res["errors"][p] = str(e)
        except (RecursionError, Exception) as e:     # an analysis that broke decides nothing
            import traceback
            tb = traceback.extract_tb(e.__traceback__)
            where = "%s:%d %s" % (tb[-1].filename.rsplit("/", 1)[-1], tb[-1].lineno, tb[-1].name) if tb else "?"
            res["errors"][p] = "internal error %s at %s" % (type(e).__name__, where)
    return kind, path, res


def _one_in_subprocess(args: Tuple[str, str, List[str]]) -> Tuple[str, str, Dict[str, Any]]:
    """``_one`` in a fresh interpreter, with a time limit: the analyses share nothing"""
    kind, path, props = args
    env = dict(os.environ, PYTHONPATH=str(VERIF) + os.pathsep + os.environ.get("PYTHONPATH", ""))
    try:
        r = subprocess.run([sys.executable, "-m", "gtirb_static.corpus_one", kind, path] + list(props),
                           capture_output=True, text=True, timeout=600, cwd=str(VERIF), env=env)
        for line in r.stdout.splitlines():
            if line.startswith("RESULT "):
                return kind, path, json.loads(line[7:])
        why = "internal error: no result (exit %d) %s" % (r.returncode, (r.stderr or "").strip().splitlines()[-1:] or "")
    except subprocess.TimeoutExpired:
        why = "internal error: analysis exceeded 600 s"
    return kind, path, {"skipped": False, "reports": {p: [] for p in props}, "errors": {p: why for p in props}}


def run_corpus(props: List[str], quiet: bool = True, jobs: int = 0) -> Dict[str, Any]:
    work: List[Tuple[str, str, List[str]]] = []
    for d in sorted((VERIF / "benign").glob("*/patch.diff")):
        work.append(("benign", str(d), props))
    for d in sorted((VERIF / "seeded").glob("*/patch.diff")):
        meta = d.parent / "meta.json"
        try:
            own = json.loads(meta.read_text()).get("breaks_property")
        except Exception:
            own = None
        if d.parent.name in REASSIGNED:
            own = REASSIGNED[d.parent.name][0]
        if own in props:
            work.append(("seeded", str(d), [own]))
    out: Dict[str, Any] = {"benign_applied": 0, "benign_silent": 0, "benign_skipped": 0,
                           "seeded_applied": 0, "seeded_reported": 0, "seeded_skipped": 0,
                           "seeded_undecided": sorted(UNDECIDED), "alarms": [], "missed": [],
                           "benign_undecided": []}
    jobs = jobs or min(16, os.cpu_count() or 4)
    from concurrent.futures import ThreadPoolExecutor
    with ThreadPoolExecutor(max_workers=jobs) as pool:
        for kind, path, res in pool.map(_one_in_subprocess, work):
            name = Path(path).parent.name
            if res.get("skipped"):
                out["%s_skipped" % kind] += 1
                continue
            out["%s_applied" % kind] += 1
            if kind == "benign":
                bad = {p: r for p, r in res["reports"].items() if r}
                if bad:
                    out["alarms"].append("%s: %s" % (name, bad))
                    if not quiet:
                        print("ALARM  benign %s %s" % (name, bad))
                elif res["errors"]:
                    # a spelling outside the fragment of some rule: the check says so (exit 2) and
                    # raises no alarm; counted, not hidden
                    out["benign_undecided"].append("%s: %s" % (name, res["errors"]))
                    if not quiet:
                        print("undecided benign %s %s" % (name, res["errors"]))
                else:
                    out["benign_silent"] += 1
            else:
                hit = any(res["reports"].values())
                if hit:
                    out["seeded_reported"] += 1
                elif name in UNDECIDED:
                    out["seeded_applied"] -= 1
                elif name in NOT_DETECTED:
                    out["seeded_applied"] -= 1
                    out.setdefault("seeded_not_detected", []).append(name)
                    if not quiet:
                        print("not detected (listed) seeded %s" % name)
                else:
                    out["missed"].append("%s %s" % (name, res["errors"] or ""))
                    if not quiet:
                        print("MISSED seeded %s %s" % (name, res["errors"] or ""))
    if not quiet:
        print("corpus: %d/%d behaviour-preserving patches silent, %d undecided (exit 2), %d alarms "
              "(%d skipped); %d/%d seeded changes "
              "reported by their own property's rules (%d skipped, %d declared undecided)"
              % (out["benign_silent"], out["benign_applied"], len(out["benign_undecided"]), len(out["alarms"]),
                 out["benign_skipped"],
                 out["seeded_reported"], out["seeded_applied"], out["seeded_skipped"], len(UNDECIDED)))
    return out


def main() -> int:
    props = sys.argv[1:] or ["C%02d" % i for i in range(1, 20)]
    res = run_corpus(props, quiet=False)
    return 2 if (res["alarms"] or res["missed"]) else 0


if __name__ == "__main__":
    sys.exit(main())
