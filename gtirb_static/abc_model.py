"""E2: the interpreter's own ``_collections_abc.py`` parsed as data.

The wrappers inherit most of their API from these mixins, so the resolved
program includes their bodies.  For every method of Set/MutableSet/Sequence/
MutableSequence/Mapping/MutableMapping we record which primitives it calls on
``self``.
"""
from __future__ import annotations

import ast
import sys
from pathlib import Path
from typing import Dict, List, Optional, Set

from .model import AnalysisError, attr_path, dotted

WANTED = ["Set", "MutableSet", "Sequence", "MutableSequence", "Mapping",
          "MutableMapping", "Collection", "Sized", "Iterable", "Container",
          "Reversible"]


class AbcMethod:
    def __init__(self, cls: str, node: ast.FunctionDef):
        self.cls = cls
        self.name = node.name
        self.node = node
        decos = [".".join(dotted(d) or ()) for d in node.decorator_list]
        self.abstract = any(d.endswith("abstractmethod") for d in decos)
        self.is_classmethod = "classmethod" in decos
        self.self_calls: Set[str] = set()     # self.m(...) or cls.m(...)
        self.uses_getitem = False
        self.uses_setitem = False
        self.uses_delitem = False
        self.uses_iter = False
        self.uses_contains = False
        self.uses_len = False
        a = node.args.posonlyargs + node.args.args
        me = a[0].arg if a else "self"
        for n in ast.walk(node):
            if isinstance(n, ast.Call):
                p = attr_path(n.func)
                if p and len(p) == 2 and p[0] == me:
                    self.self_calls.add(p[1])
                if p and p == ("len",) and n.args and _is(n.args[0], me):
                    self.uses_len = True
                if p and p in (("iter",), ("reversed",)) and n.args and _is(n.args[0], me):
                    self.uses_iter = True
            elif isinstance(n, ast.Subscript) and _is(n.value, me):
                if isinstance(n.ctx, ast.Store):
                    self.uses_setitem = True
                elif isinstance(n.ctx, ast.Del):
                    self.uses_delitem = True
                else:
                    self.uses_getitem = True
            elif isinstance(n, (ast.For, ast.comprehension)) and _is(n.iter, me):
                self.uses_iter = True
            elif isinstance(n, ast.Compare):
                for op, c in zip(n.ops, n.comparators):
                    if isinstance(op, (ast.In, ast.NotIn)) and _is(c, me):
                        self.uses_contains = True
            elif isinstance(n, ast.While) and _is(n.test, me):
                self.uses_len = True
            elif isinstance(n, ast.BinOp):
                op = _BINOPS.get(type(n.op))
                if op:
                    if _is(n.left, me):
                        self.self_calls.add("__%s__" % op)
                    if _is(n.right, me):
                        self.self_calls.add("__r%s__" % op)
            elif isinstance(n, ast.AugAssign) and _is(n.target, me):
                op = _BINOPS.get(type(n.op))
                if op:
                    self.self_calls.add("__i%s__" % op)

    def primitives(self) -> Set[str]:
        out = set(self.self_calls)
        if self.uses_getitem:
            out.add("__getitem__")
        if self.uses_setitem:
            out.add("__setitem__")
        if self.uses_delitem:
            out.add("__delitem__")
        if self.uses_iter:
            out.add("__iter__")
        if self.uses_contains:
            out.add("__contains__")
        if self.uses_len:
            out.add("__len__")
        return out


_BINOPS = {ast.Sub: "sub", ast.BitOr: "or", ast.BitAnd: "and", ast.BitXor: "xor",
           ast.Add: "add"}


def _is(n: ast.AST, name: str) -> bool:
    return isinstance(n, ast.Name) and n.id == name


class AbcModel:
    MRO = {
        "abc.MutableSet": ["MutableSet", "Set", "Collection", "Sized", "Iterable", "Container"],
        "abc.MutableSequence": ["MutableSequence", "Sequence", "Reversible", "Collection",
                                "Sized", "Iterable", "Container"],
        "abc.MutableMapping": ["MutableMapping", "Mapping", "Collection", "Sized",
                               "Iterable", "Container"],
    }

    def __init__(self) -> None:
        import _collections_abc
        path = Path(_collections_abc.__file__)
        if not path.is_file():
            raise AnalysisError("cannot locate _collections_abc.py")
        self.path = str(path)
        tree = ast.parse(path.read_text())
        self.classes: Dict[str, Dict[str, AbcMethod]] = {}
        self.aliases: Dict[str, Dict[str, str]] = {}
        for st in tree.body:
            if isinstance(st, ast.ClassDef) and st.name in WANTED:
                ms: Dict[str, AbcMethod] = {}
                al: Dict[str, str] = {}
                for b in st.body:
                    if isinstance(b, ast.FunctionDef):
                        ms[b.name] = AbcMethod(st.name, b)
                    elif isinstance(b, ast.Assign) and len(b.targets) == 1 and \
                            isinstance(b.targets[0], ast.Name) and isinstance(b.value, ast.Name):
                        al[b.targets[0].id] = b.value.id   # __ror__ = __or__
                for k, v in al.items():
                    if v in ms:
                        ms[k] = ms[v]
                self.classes[st.name] = ms
                self.aliases[st.name] = al
        for w in ("Set", "MutableSet", "MutableSequence", "MutableMapping"):
            if w not in self.classes:
                raise AnalysisError("_collections_abc.%s not found" % w)

    def resolve(self, abc: str, name: str) -> Optional[AbcMethod]:
        for c in self.MRO.get(abc, []):
            m = self.classes.get(c, {}).get(name)
            if m is not None:
                return m
        return None

    def api(self, abc: str) -> Dict[str, AbcMethod]:
        out: Dict[str, AbcMethod] = {}
        for c in reversed(self.MRO.get(abc, [])):
            out.update(self.classes.get(c, {}))
        return out

    def abstract_names(self, abc: str) -> List[str]:
        return sorted(n for n, m in self.api(abc).items() if m.abstract)

    def users_of(self, abc: str, primitive: str) -> List[str]:
        """API methods (transitively) depending on ``primitive``."""
        api = self.api(abc)
        dep: Dict[str, Set[str]] = {n: set(m.primitives()) for n, m in api.items()}
        changed = True
        while changed:
            changed = False
            for n, d in dep.items():
                for x in list(d):
                    if x in dep and x != n:
                        new = dep[x] - d
                        if new:
                            d |= new
                            changed = True
        return sorted(n for n, d in dep.items() if primitive in d and n != primitive)
