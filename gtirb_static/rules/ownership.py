"""Shared ownership / pairing analysis (R03.1-R03.6, R04.1-R04.2, R05.3,
R06 index half, R10.3).  Each obligation is tagged with the property whose
half of the pairing it is; cXX.py picks its own.
"""
from __future__ import annotations

import ast
from typing import Dict, Iterable, List, Optional, Set, Tuple

from ..cfg import CFG
from ..model import (AnalysisError, ClassInfo, FuncInfo, Repo, attr_path,
                     const_str, dotted, expand_path, local_aliases, unparse,
                     walk_no_nested, annotation_names)
from ..types import TypeEnv

Ob = Tuple[str, str, str, bool, str, str, int]   # prop, rule, construct, ok, loc, msg, facts

INDEX_PROP = {"Module": "C10", "Section": "C06", "ByteInterval": "C05"}

MUTATORS = {"add", "discard", "update", "clear", "pop", "remove", "insert",
            "append", "extend", "popitem", "setdefault", "reverse", "sort",
            "difference_update", "intersection_update",
            "symmetric_difference_update", "__setitem__", "__delitem__",
            "__ior__", "__iand__", "__isub__", "__ixor__", "__iadd__"}


class Relation:
    def __init__(self, coll: ClassInfo, owner: ClassInfo, kind: str):
        self.coll = coll
        self.owner = owner
        self.kind = kind
        self.attrs: Dict[str, List[ClassInfo]] = {}   # attr -> element classes
        self.field_consts: Dict[str, Optional[str]] = {}
        self.backptr: Optional[str] = None
        self.elements: List[ClassInfo] = []

    def __repr__(self) -> str:
        return "<rel %s.%s -> %s via %s>" % (
            self.owner.name, "/".join(self.attrs), [e.name for e in self.elements], self.backptr)


class Ownership:
    def __init__(self, repo: Repo):
        self.repo = repo
        self.types = TypeEnv(repo)
        self.obs: List[Ob] = []
        self.functions: Set[str] = set()
        self.relations: List[Relation] = []
        self.counts: Dict[str, int] = {}
        self._discover()
        self._who_may_write_backptrs()
        self._who_may_write_table()
        for rel in self.relations:
            self._primitives(rel)
            self._store_routing(rel)
        self._list_hooks()
        self._subtree_recursion()
        self._loader_registration()
        self._parent_setters()
        self._field_agreement()

    # ------------------------------------------------------------------
    def add(self, prop: str, rule: str, construct: str, ok: bool, loc: str,
            msg: str, facts: int = 1) -> None:
        self.obs.append((prop, rule, construct, bool(ok), loc, msg, facts))

    def count(self, k: str, n: int = 1) -> None:
        self.counts[k] = self.counts.get(k, 0) + n

    # ------------------------------------------------------------------
    def _discover(self) -> None:
        repo = self.repo
        node = repo.cls("Node")
        lw = repo.cls("ListWrapper")
        sw = repo.cls("SetWrapper")
        for c in repo.classes.values():
            if c.outer is None or not c.outer.is_subclass_of(node):
                continue
            if c.is_subclass_of(lw):
                kind = "list"
            elif c.is_subclass_of(sw):
                kind = "set"
            else:
                continue
            rel = Relation(c, c.outer, kind)
            # back-pointer: written as <x>.<bp> = self._node / None inside coll
            bps: Set[str] = set()
            owner_bps: Set[str] = set()
            for f in c.methods.values():
                for n in walk_no_nested(f.node):
                    if isinstance(n, ast.Assign):
                        for t in n.targets:
                            if isinstance(t, ast.Attribute) and t.attr.startswith("_") \
                                    and isinstance(t.value, ast.Name) and t.value.id != f.self_name:
                                # the back-pointer is what gets the owner (or None): other private
                                # attributes written on other objects are not it
                                v_ = n.value
                                owner_or_none = (isinstance(v_, ast.Constant) and v_.value is None) or \
                                    attr_path(v_) == (f.self_name, "_node")
                                if owner_or_none:
                                    bps.add(t.attr)
                                if attr_path(v_) == (f.self_name, "_node"):
                                    owner_bps.add(t.attr)
            if len(bps) != 1 and len(owner_bps) == 1:
                # several private attributes are reset here, one of them receives the owner
                bps = owner_bps
            if len(bps) != 1:
                raise AnalysisError("cannot determine the back-pointer written by %s: %s"
                                    % (c.qualname, sorted(bps)))
            rel.backptr = bps.pop()
            # attrs: owner.__init__ assigns self.X = Coll(self, ...)
            init = c.outer.methods.get("__init__")
            if init is None:
                raise AnalysisError("anchor vanished: %s.__init__" % c.outer.qualname)
            generic_elems = self._generic_param(c)
            for n in walk_no_nested(init.node):
                tgt = val = None
                if isinstance(n, ast.Assign) and len(n.targets) == 1:
                    tgt, val = n.targets[0], n.value
                elif isinstance(n, ast.AnnAssign):
                    tgt, val = n.target, n.value
                if tgt is None or not isinstance(val, ast.Call):
                    continue
                p = attr_path(tgt)
                if not p or len(p) != 2 or p[0] != init.self_name:
                    continue
                d = dotted(val.func)
                if not d or repo.resolve_name(c.outer.module, ".".join(d), c.outer) is not c:
                    continue
                elems = list(generic_elems)
                fconst = None
                for a in val.args[1:]:
                    s = const_str(a)
                    if s is not None:
                        fconst = s
                    elif isinstance(a, ast.Name):
                        for prm in init.params:
                            if prm.arg == a.id:
                                e2 = self._iter_elem(prm.annotation, init)
                                if e2:
                                    elems = e2
                rel.attrs[p[1]] = elems
                rel.field_consts[p[1]] = fconst
            if not rel.attrs:
                raise AnalysisError("no attribute of %s holds a %s" % (c.outer.qualname, c.qualname))
            for es in rel.attrs.values():
                for e in es:
                    if e not in rel.elements:
                        rel.elements.append(e)
            self.relations.append(rel)
        if len(self.relations) < 4:
            raise AnalysisError("fewer than 4 owning collections found (%d)" % len(self.relations))

    def _generic_param(self, c: ClassInfo) -> List[ClassInfo]:
        for b in c.base_exprs:
            if isinstance(b, ast.Subscript):
                return self.types.resolve_ann(b.slice, c.module, c.outer)
        return []

    def _iter_elem(self, ann: Optional[ast.AST], f: FuncInfo) -> List[ClassInfo]:
        if isinstance(ann, ast.Subscript):
            return self.types.resolve_ann(ann.slice, f.module, f.cls)
        return []

    def rel_for_backptr(self, bp: str) -> Optional[Relation]:
        for r in self.relations:
            if r.backptr == bp:
                return r
        return None

    def backptrs(self) -> List[str]:
        return [r.backptr for r in self.relations if r.backptr]

    def owner_ir_path(self, rel: Relation, me: str) -> Tuple[str, ...]:
        if rel.owner.name == "IR":
            return (me, "_node")
        return (me, "_node", "ir")

    # ------------------------------------------------------------------
    def _who_may_write_backptrs(self) -> None:
        """R03.2: back-pointers are assigned only in the element's own
        __init__ (to None) and in the primitives of the owning collection."""
        bps = set(self.backptrs())
        n_writes = 0
        for f in self.repo.all_functions():
            for n in walk_no_nested(f.node):
                targets: List[ast.AST] = []
                if isinstance(n, ast.Assign):
                    targets = list(n.targets)
                elif isinstance(n, (ast.AnnAssign, ast.AugAssign)):
                    targets = [n.target]
                elif isinstance(n, ast.Delete):
                    targets = list(n.targets)
                elif isinstance(n, ast.Call):
                    p = attr_path(n.func)
                    if p in (("setattr",), ("delattr",)) and len(n.args) >= 2:
                        s = const_str(n.args[1])
                        if s in bps:
                            self.add("C04", "R03.2", "%s:setattr(%s)" % (f.qualname, s), False,
                                     f.loc(n), "back-pointer %s written reflectively outside the "
                                     "owning collection's primitives" % s)
                    continue
                for t in _flatten(targets):
                    if not (isinstance(t, ast.Attribute) and t.attr in bps):
                        continue
                    n_writes += 1
                    rel = self.rel_for_backptr(t.attr)
                    assert rel is not None
                    val = getattr(n, "value", None)
                    in_coll = f.cls is rel.coll
                    own_init = (f.name == "__init__" and f.cls is not None
                                and isinstance(t.value, ast.Name) and t.value.id == f.self_name
                                and isinstance(val, ast.Constant) and val.value is None
                                and any(f.cls.is_subclass_of(e) or e.is_subclass_of(f.cls)
                                        for e in rel.elements))
                    ok = in_coll or own_init
                    self.functions.add(f.qualname)
                    self.add("C04", "R03.2", "%s:write(%s)" % (f.qualname, t.attr), ok, f.loc(n),
                             "back-pointer %s assigned in %s; only %s's primitives (and the "
                             "element's own __init__, to None) may write it"
                             % (t.attr, f.qualname, rel.coll.qualname), 2)
        self.counts["backptr_writes"] = n_writes

    # ------------------------------------------------------------------
    def _who_may_write_table(self) -> None:
        """R03.1: uses of _local_uuid_cache."""
        uses = 0
        for m in self.repo.modules.values():
            # class-level / module-level definitions
            for c in m.classes.values():
                if "_local_uuid_cache" in c.class_assigns or "_local_uuid_cache" in c.class_annots \
                        and c.class_assigns.get("_local_uuid_cache") is not None:
                    self.add("C03", "R03.1", "%s:class-level(_local_uuid_cache)" % c.qualname, False,
                             c.loc(), "UUID table defined at class level: shared between all IRs")
            if "_local_uuid_cache" in m.assigns:
                self.add("C03", "R03.1", "%s:module-level(_local_uuid_cache)" % m.name, False,
                         m.relpath + ":1", "UUID table defined at module level")
        for f in self.repo.all_functions():
            for n in walk_no_nested(f.node):
                if not (isinstance(n, ast.Attribute) and n.attr == "_local_uuid_cache"):
                    continue
                uses += 1
                self.functions.add(f.qualname)
                par = getattr(n, "_parent", None)
                kind = "other"
                ok = False
                cur_ = n
                # ``None if ir is None else ir._local_uuid_cache``: the table or nothing
                while isinstance(par, ast.IfExp) and cur_ in (par.body, par.orelse):
                    cur_, par = par, getattr(par, "_parent", None)
                if cur_ is not n:
                    if isinstance(par, ast.Call) and cur_ in par.args:
                        p = attr_path(par.func)
                        if p and p[-1] in ("_add_to_uuid_cache", "_remove_from_uuid_cache"):
                            kind, ok = "pass-to-%s" % p[-1], True
                    elif isinstance(par, ast.Compare) and len(par.ops) == 1 and isinstance(par.ops[0], (ast.Is, ast.IsNot)) \
                            and any(isinstance(x, ast.Constant) and x.value is None for x in [par.left] + par.comparators):
                        kind, ok = "presence-test", True
                    elif isinstance(par, ast.Assign) and len(par.targets) == 1 and isinstance(par.targets[0], ast.Name):
                        nm_ = par.targets[0].id
                        loads = [x for x in walk_no_nested(f.node) if isinstance(x, ast.Name) and x.id == nm_
                                 and isinstance(x.ctx, ast.Load)]

                        def fine(x: ast.AST) -> bool:
                            px = getattr(x, "_parent", None)
                            if isinstance(px, ast.Call) and x in px.args:
                                pp = attr_path(px.func)
                                return bool(pp) and pp[-1] in ("_add_to_uuid_cache", "_remove_from_uuid_cache")
                            return isinstance(px, ast.Compare) and len(px.ops) == 1 and \
                                isinstance(px.ops[0], (ast.Is, ast.IsNot))
                        if loads and all(fine(x) for x in loads):
                            kind, ok = "local-alias", True
                    self.add("C03", "R03.1", "%s:%s(_local_uuid_cache)" % (f.qualname, kind), ok, f.loc(n),
                             "use of the UUID table as '%s' in %s is outside the allowed set "
                             "{create/self-register in IR.__init__, read in IR.get_by_uuid, pass to "
                             "_add_to_uuid_cache/_remove_from_uuid_cache}" % (kind, f.qualname), 2)
                    continue
                if isinstance(par, ast.Call) and n in par.args:
                    p = attr_path(par.func)
                    if p and p[-1] in ("_add_to_uuid_cache", "_remove_from_uuid_cache"):
                        kind, ok = "pass-to-%s" % p[-1], True
                elif isinstance(par, (ast.Assign, ast.AnnAssign)) and f.name == "__init__" \
                        and f.cls is not None and f.cls.name == "IR" \
                        and attr_path(n) == (f.self_name, "_local_uuid_cache"):
                    val = par.value
                    fresh = isinstance(val, ast.Dict) and not val.keys or (
                        isinstance(val, ast.Call) and attr_path(val.func) == ("dict",) and not val.args)
                    kind, ok = "create", bool(fresh)
                elif isinstance(par, ast.Subscript) and par.value is n:
                    gp = getattr(par, "_parent", None)
                    if isinstance(par.ctx, ast.Store) and f.name == "__init__" and f.cls is not None \
                            and f.cls.name == "IR" and isinstance(gp, ast.Assign) \
                            and attr_path(par.slice) == (f.self_name, "uuid") \
                            and attr_path(gp.value) == (f.self_name,):
                        kind, ok = "self-register", True
                    else:
                        kind = "subscript-%s" % type(par.ctx).__name__
                elif isinstance(par, ast.Attribute) and par.attr == "get" and f.name == "get_by_uuid" \
                        and f.cls is not None and f.cls.name == "IR":
                    kind, ok = "read", True
                self.add("C03", "R03.1", "%s:%s(_local_uuid_cache)" % (f.qualname, kind), ok, f.loc(n),
                         "use of the UUID table as '%s' in %s is outside the allowed set "
                         "{create/self-register in IR.__init__, read in IR.get_by_uuid, pass to "
                         "_add_to_uuid_cache/_remove_from_uuid_cache}" % (kind, f.qualname), 2)
        self.counts["table_uses"] = uses
        # the cache methods themselves: parameter used only as cache[self.uuid] store/del
        # and forwarded to the same-named method
        for c in self.repo.classes.values():
            for nm in ("_add_to_uuid_cache", "_remove_from_uuid_cache"):
                f = c.methods.get(nm)
                if f is None:
                    continue
                self.functions.add(f.qualname)
                ps = f.param_names()
                if len(ps) < 2:
                    raise AnalysisError("%s has no cache parameter" % f.qualname)
                cache = ps[1]
                for n in walk_no_nested(f.node):
                    if isinstance(n, ast.Name) and n.id == cache and isinstance(n.ctx, ast.Load):
                        par = getattr(n, "_parent", None)
                        ok = False
                        what = unparse(par)[:60] if par is not None else "?"
                        if isinstance(par, ast.Subscript) and par.value is n:
                            want = ast.Store if nm.startswith("_add") else ast.Del
                            ok = isinstance(par.ctx, want) and \
                                attr_path(par.slice) == (f.self_name, "uuid")
                            if ok and isinstance(par.ctx, ast.Store):
                                gp = getattr(par, "_parent", None)
                                ok = isinstance(gp, ast.Assign) and attr_path(gp.value) == (f.self_name,)
                        elif isinstance(par, ast.Call) and n in par.args:
                            p = attr_path(par.func)
                            ok = bool(p) and p[-1] == nm
                        self.add("C03", "R03.1", "%s:param-use(%s)" % (f.qualname, _norm(what)), ok,
                                 f.loc(n), "cache parameter used as %r: a cache method may only "
                                 "%s cache[self.uuid] and forward the cache to %s of its children"
                                 % (what, "store self under" if nm.startswith("_add") else "delete", nm), 1)

    # ------------------------------------------------------------------
    def _primitives(self, rel: Relation) -> None:
        bp = rel.backptr
        assert bp
        attach: List[FuncInfo] = []
        detach: List[FuncInfo] = []
        for f in rel.coll.methods.values():
            writes = [n for n in walk_no_nested(f.node) if isinstance(n, ast.Assign)
                      and any(isinstance(t, ast.Attribute) and t.attr == bp for t in n.targets)]
            tuple_writes = [n for n in walk_no_nested(f.node) if isinstance(n, ast.Assign)
                            and any(isinstance(t, (ast.Tuple, ast.List)) and any(
                                isinstance(e, ast.Attribute) and e.attr == bp for e in t.elts) for t in n.targets)]
            for tw in tuple_writes:
                self.add("C04", "R03.3", "%s:bp-tuple-assignment" % f.qualname, False, f.loc(tw),
                         "%s assigns %s inside a tuple assignment (%s): the element is re-linked before it "
                         "has left its previous owner, whose discard then clears the new link"
                         % (f.qualname, bp, unparse(tw)[:60]), 2)
            al = local_aliases(f.node)
            a = [w for w in writes if expand_path(w.value, al) == (f.self_name, "_node")]
            d = [w for w in writes if isinstance(w.value, ast.Constant) and w.value.value is None]
            other = [w for w in writes if w not in a and w not in d]
            for w in other:
                self.add("C04", "R03.3", "%s:bp-value(%s)" % (f.qualname, bp), False, f.loc(w),
                         "back-pointer %s assigned %s: must be the owning node (self._node) or None"
                         % (bp, unparse(w.value)))
            def elem_of(w_: ast.Assign) -> Optional[str]:
                t_ = [t for t in w_.targets if isinstance(t, ast.Attribute) and t.attr == bp][0]
                return t_.value.id if isinstance(t_.value, ast.Name) else None
            if a:
                attach.append(f)
                # the same write on several branches (duplicated code) is one obligation: some
                # write of the group on every path
                if len({elem_of(w) for w in a}) == 1:
                    self._attach(rel, f, a[0], a)
                else:
                    for w in a:
                        self._attach(rel, f, w)
            if d:
                detach.append(f)
                if len({elem_of(w) for w in d}) == 1:
                    self._detach(rel, f, d[0], d)
                else:
                    for w in d:
                        self._detach(rel, f, w)
        self.count("attach_primitives", len(attach))
        self.count("detach_primitives", len(detach))
        if not attach or not detach:
            self.add("C04", "R03.3", "%s:primitives" % rel.coll.qualname, False, rel.coll.loc(),
                     "owning collection has %d attach and %d detach primitive(s) writing %s; "
                     "needs at least one of each" % (len(attach), len(detach), bp))

    def _region(self, cfg: CFG, f: FuncInfo, elem: str, at: ast.AST) -> Tuple[int, int, Optional[ast.For]]:
        """(src, dst, loop) for the per-element obligations."""
        cur = getattr(at, "_parent", None)
        while cur is not None and cur is not f.node:
            if isinstance(cur, ast.For) and isinstance(cur.target, ast.Name) and cur.target.id == elem:
                head = cfg.by_ast[id(cur)]
                bi = [s for s in cfg.g.successors(head)
                      if cfg.info[s].kind == "branch" and cfg.info[s].value]
                return bi[0], head, cur
            cur = getattr(cur, "_parent", None)
        return cfg.entry, cfg.exit, None

    def _none_branches(self, cfg: CFG, path: Tuple[str, ...], al: Dict[str, ast.AST],
                       want_none: bool) -> Set[int]:
        """branch nodes on which ``path`` is known to be None (want_none) or
        known to be not None."""
        out: Set[int] = set()
        for n, i in cfg.info.items():
            if i.kind != "test" or not isinstance(i.ast, ast.Compare):
                continue
            c = i.ast
            if len(c.ops) != 1 or not (isinstance(c.comparators[0], ast.Constant)
                                       and c.comparators[0].value is None):
                continue
            if expand_path(c.left, al) != path:
                continue
            is_none_when_true = isinstance(c.ops[0], ast.Is)
            if not isinstance(c.ops[0], (ast.Is, ast.IsNot)):
                continue
            for s in cfg.g.successors(n):
                si = cfg.info[s]
                if si.kind == "branch":
                    none_here = (si.value == is_none_when_true)
                    if none_here == want_none:
                        out.add(s)
        return out

    def _calls(self, cfg: CFG, pred) -> Set[int]:
        return cfg.nodes_where(lambda n: isinstance(n, ast.Call) and pred(n))

    def _attach(self, rel: Relation, f: FuncInfo, w: ast.Assign, group: Optional[List[ast.Assign]] = None) -> None:
        self.functions.add(f.qualname)
        bp = rel.backptr
        me = f.self_name or "self"
        tgt = [t for t in w.targets if isinstance(t, ast.Attribute) and t.attr == bp][0]
        if not isinstance(tgt.value, ast.Name):
            self.add("C04", "R03.3", "%s:elem" % f.qualname, False, f.loc(w),
                     "cannot identify the element variable of the attach primitive")
            return
        elem = tgt.value.id
        cfg = CFG(f.node)
        al = local_aliases(f.node)
        src, dst, loop = self._region(cfg, f, elem, w)
        key = f.qualname
        n_w = cfg.node_of(w)
        n_ws = {cfg.node_of(x) for x in (group or [w])}

        def every_path(hit: Set[int], excused: Set[int] = frozenset()) -> Optional[List[int]]:
            return cfg.path_avoiding(src, dst, set(hit) | set(excused))

        # (a) back-pointer write on every path
        wit = every_path(n_ws)
        self.add("C04", "R03.3", "%s:set-backptr" % key, wit is None, f.loc(w),
                 "a path through %s does not set %s.%s = owner: %s"
                 % (key, elem, bp, _p(cfg, wit)), 2)

        # (b) detach from the previous owner, guarded by <elem>.<bp> is not None
        def is_prev_detach(c: ast.Call) -> bool:
            if not (isinstance(c.func, ast.Attribute) and c.func.attr in ("discard", "remove")):
                return False
            if not (len(c.args) == 1 and isinstance(c.args[0], ast.Name) and c.args[0].id == elem):
                return False
            recv = c.func.value
            if isinstance(recv, ast.Call) and attr_path(recv.func) == ("getattr",) and len(recv.args) == 2:
                return expand_path(recv.args[0], al) == (elem, bp) and \
                    expand_path(recv.args[1], al) == (me, "_field")
            p = expand_path(recv, al)
            return bool(p) and len(p) == 3 and p[:2] == (elem, bp) and p[2] in rel.attrs
        prev = self._calls(cfg, is_prev_detach)
        none_br = self._none_branches(cfg, (elem, bp), al, True)
        wit = every_path(prev, none_br)
        self.add("C04", "R03.3", "%s:leave-previous-owner" % key, wit is None, f.loc(w),
                 "a path through %s attaches %s without first removing it from the collection "
                 "of its previous owner (%s.%s not None): %s" % (key, elem, elem, bp, _p(cfg, wit)), 3)
        # the removal must happen while the back-pointer still names the old owner
        bad_order = [p for p in prev if any(cfg.dominates(x_, p) for x_ in n_ws)]
        self.add("C04", "R03.3", "%s:leave-before-relink" % key, not bad_order, f.loc(w),
                 "%s.%s is overwritten before the element is removed from its previous owner"
                 % (elem, bp), 2)
        # getattr(...) form must use the collection's own field name: checked by R04.2

        # (c) UUID table
        irp = self.owner_ir_path(rel, me)
        cache_arg = irp + ("_local_uuid_cache",)

        def is_cache_add(c: ast.Call) -> bool:
            p = attr_path(c.func)
            return bool(p) and p == (elem, "_add_to_uuid_cache") and len(c.args) == 1 \
                and expand_path(c.args[0], al) == cache_arg
        cadd = self._calls(cfg, is_cache_add)
        exc = set() if rel.owner.name == "IR" else self._none_branches(cfg, irp, al, True)
        wit = every_path(cadd, exc)

        def is_any_cache_add(c: ast.Call) -> bool:
            p = attr_path(c.func)
            return bool(p) and p[-1] == "_add_to_uuid_cache"
        stray = self._calls(cfg, is_any_cache_add) - cadd
        # a registration whose table argument is not an attribute path (a conditional expression,
        # a call) is a spelling this rule does not follow: undecided (facts < 0), not a violation
        opaque = [c_ for c_ in walk_no_nested(f.node) if isinstance(c_, ast.Call) and is_any_cache_add(c_)
                  and len(c_.args) == 1 and expand_path(c_.args[0], al) is None]
        und = -1 if (opaque and not cadd) else 3
        self.add("C03", "R03.3", "%s:table-add" % key, wit is None, f.loc(w),
                 "a path through %s attaches %s without registering its subtree in the owner's "
                 "IR table (%s), or the guard is not 'owner's ir is not None': %s"
                 % (key, elem, ".".join(cache_arg), _p(cfg, wit)), und)
        # any other _add_to_uuid_cache call with a different table is a misrouted registration
        self.add("C03", "R03.3", "%s:table-add-target" % key, not stray, f.loc(w),
                 "%s registers into a table other than the owner's IR table" % key, -1 if und < 0 else 1)

        # (d) index
        if "_index_add" in rel.owner.methods or rel.owner.find_method("_index_add"):
            prop = INDEX_PROP.get(rel.owner.name, "C05")

            def is_index_add(c: ast.Call) -> bool:
                p = expand_path(c.func, al)
                return p == (me, "_node", "_index_add") and len(c.args) == 1 and \
                    isinstance(c.args[0], ast.Name) and c.args[0].id == elem
            hits = self._calls(cfg, is_index_add)
            wit = every_path(hits)
            ok = wit is None
            if not ok and loop is not None:
                # bulk form after the loop over the same item set
                items = loop.iter.id if isinstance(loop.iter, ast.Name) else None

                def is_bulk(c: ast.Call) -> bool:
                    p = expand_path(c.func, al)
                    return p is not None and p[:2] == (me, "_node") and p[-1].startswith("_index_add") \
                        and any(isinstance(a, ast.Name) and a.id == items for a in c.args)
                bulk = self._calls(cfg, is_bulk)
                wit = cfg.path_avoiding(cfg.entry, cfg.exit, bulk)
                ok = items is not None and wit is None
            self.add(prop, "R05.3", "%s:index-add" % key, ok, f.loc(w),
                     "a path through %s attaches %s without adding it to the owner's index: %s"
                     % (key, elem, _p(cfg, wit)), 2)
            early = [h for h in hits if any(pd in cfg.reachable(h) for pd in prev)]
            self.add(prop, "R05.3", "%s:index-add-after-leave" % key, not early, f.loc(w),
                     "%s adds %s to the owner's index before removing it from its previous owner: "
                     "when the previous owner is this very owner the queued events are ADD then "
                     "DISCARD and an incremental replay drops a live member" % (key, elem), 2)

        # (e) store
        if rel.kind == "set":
            def is_store(c: ast.Call) -> bool:
                if not (isinstance(c.func, ast.Attribute) and c.func.attr == "add"):
                    return False
                if not (len(c.args) == 1 and isinstance(c.args[0], ast.Name) and c.args[0].id == elem):
                    return False
                r = c.func.value
                if isinstance(r, ast.Call) and attr_path(r.func) == ("super",):
                    return True
                return expand_path(r, al) == (me, "_data")
            hits = self._calls(cfg, is_store)
            wit = every_path(hits)
            ok = wit is None
            if not ok and loop is not None:
                items = loop.iter.id if isinstance(loop.iter, ast.Name) else None

                def is_bulk_store(c: ast.Call) -> bool:
                    return isinstance(c.func, ast.Attribute) and c.func.attr == "update" and \
                        expand_path(c.func.value, al) == (me, "_data") and len(c.args) == 1 and \
                        isinstance(c.args[0], ast.Name) and c.args[0].id == items
                bulk = self._calls(cfg, is_bulk_store)
                aug = cfg.nodes_where(lambda n: isinstance(n, ast.AugAssign)
                                      and isinstance(n.op, ast.BitOr)
                                      and expand_path(n.target, al) == (me, "_data")
                                      and isinstance(n.value, ast.Name) and n.value.id == items)
                wit = cfg.path_avoiding(cfg.entry, cfg.exit, bulk | aug)
                ok = items is not None and wit is None
            self.add("C04", "R03.3", "%s:store-add" % key, ok, f.loc(w),
                     "a path through %s links %s to the owner without putting it in the "
                     "collection's store: %s" % (key, elem, _p(cfg, wit)), 2)
            # the element enters the store after it has left its previous owner: the previous
            # owner may be this very collection (a member added again), and then the removal
            # would take out what was just put in
            early = [h for h in hits if any(p_ in cfg.reachable(h) and p_ != h for p_ in prev)]
            self.add("C04", "R03.3", "%s:store-after-leaving" % key, not early, f.loc(w),
                     "%s puts %s into the store before removing it from its previous owner: when that "
                     "owner is this collection itself the removal takes the element out again while its "
                     "back-pointer is set" % (key, elem), 2)

    def _detach(self, rel: Relation, f: FuncInfo, w: ast.Assign, group: Optional[List[ast.Assign]] = None) -> None:
        self.functions.add(f.qualname)
        bp = rel.backptr
        me = f.self_name or "self"
        tgt = [t for t in w.targets if isinstance(t, ast.Attribute) and t.attr == bp][0]
        if not isinstance(tgt.value, ast.Name):
            self.add("C04", "R03.3", "%s:elem" % f.qualname, False, f.loc(w),
                     "cannot identify the element variable of the detach primitive")
            return
        elem = tgt.value.id
        cfg = CFG(f.node)
        al = local_aliases(f.node)
        key = f.qualname
        src, dst = cfg.entry, cfg.exit
        n_w = cfg.node_of(w)
        n_ws = {cfg.node_of(x) for x in (group or [w])}
        # early exit: element not a member
        excused: Set[int] = set()
        guard_found = False
        for n, i in cfg.info.items():
            if i.kind != "test" or not isinstance(i.ast, ast.Compare):
                continue
            c = i.ast
            if len(c.ops) == 1 and isinstance(c.ops[0], (ast.In, ast.NotIn)) and \
                    isinstance(c.left, ast.Name) and c.left.id == elem and \
                    expand_path(c.comparators[0], al) in ((me,), (me, "_data")):
                guard_found = True
                not_member_when_true = isinstance(c.ops[0], ast.NotIn)
                for s in cfg.g.successors(n):
                    si = cfg.info[s]
                    if si.kind == "branch" and si.value == not_member_when_true:
                        excused.add(s)
        if rel.kind == "set":
            # a non-member must not be unlinked: the write must be dominated by a membership test
            self.add("C04", "R03.3", "%s:member-guard" % key, guard_found,
                     f.loc(w), "%s unlinks %s without first testing that it is a member of this "
                     "collection" % (key, elem), 2)
            if guard_found:
                # every path to the write passes the 'is a member' outcome
                member_br = _neg(cfg, excused)
                wit0 = None
                for x_ in sorted(n_ws):
                    wit0 = wit0 or cfg.path_avoiding(src, x_, member_br)
                self.add("C04", "R03.3", "%s:member-guard-dominates" % key, wit0 is None, f.loc(w),
                         "the back-pointer of %s can be cleared on a path where membership was not "
                         "established: %s" % (elem, _p(cfg, wit0)), 2)

        def every_path(hit: Set[int], exc2: Set[int] = frozenset()) -> Optional[List[int]]:
            return cfg.path_avoiding(src, dst, set(hit) | excused | set(exc2))

        wit = every_path(n_ws)
        self.add("C04", "R03.3", "%s:clear-backptr" % key, wit is None, f.loc(w),
                 "a path through %s removes %s without clearing %s.%s: %s"
                 % (key, elem, elem, bp, _p(cfg, wit)), 2)

        irp = self.owner_ir_path(rel, me)
        cache_arg = irp + ("_local_uuid_cache",)

        def is_cache_rm(c: ast.Call) -> bool:
            p = attr_path(c.func)
            return bool(p) and p == (elem, "_remove_from_uuid_cache") and len(c.args) == 1 \
                and expand_path(c.args[0], al) == cache_arg
        crm = self._calls(cfg, is_cache_rm)
        exc = set() if rel.owner.name == "IR" else self._none_branches(cfg, irp, al, True)
        wit = every_path(crm, exc)
        self.add("C03", "R03.3", "%s:table-remove" % key, wit is None, f.loc(w),
                 "a path through %s detaches %s without removing its subtree from the owner's IR "
                 "table (%s), or the guard is not 'owner's ir is not None': %s"
                 % (key, elem, ".".join(cache_arg), _p(cfg, wit)), 3)

        def is_any_cache_rm(c: ast.Call) -> bool:
            p = attr_path(c.func)
            return bool(p) and p[-1] == "_remove_from_uuid_cache"
        stray = self._calls(cfg, is_any_cache_rm) - crm
        self.add("C03", "R03.3", "%s:table-remove-target" % key, not stray, f.loc(w),
                 "%s removes from a table other than the owner's IR table" % key, 1)

        if rel.owner.find_method("_index_discard"):
            prop = INDEX_PROP.get(rel.owner.name, "C05")

            def is_index_rm(c: ast.Call) -> bool:
                p = expand_path(c.func, al)
                return p == (me, "_node", "_index_discard") and len(c.args) == 1 and \
                    isinstance(c.args[0], ast.Name) and c.args[0].id == elem
            hits = self._calls(cfg, is_index_rm)
            wit = every_path(hits)
            self.add(prop, "R05.3", "%s:index-discard" % key, wit is None, f.loc(w),
                     "a path through %s detaches %s without discarding it from the owner's "
                     "index: %s" % (key, elem, _p(cfg, wit)), 2)

        if rel.kind == "set":
            def is_store_rm(c: ast.Call) -> bool:
                if not (isinstance(c.func, ast.Attribute) and c.func.attr in ("discard", "remove")):
                    return False
                if not (len(c.args) == 1 and isinstance(c.args[0], ast.Name) and c.args[0].id == elem):
                    return False
                r = c.func.value
                if isinstance(r, ast.Call) and attr_path(r.func) == ("super",):
                    return True
                return expand_path(r, al) == (me, "_data")
            hits = self._calls(cfg, is_store_rm)
            wit = every_path(hits)
            self.add("C04", "R03.3", "%s:store-discard" % key, wit is None, f.loc(w),
                     "a path through %s unlinks %s but leaves it in the collection's store: %s"
                     % (key, elem, _p(cfg, wit)), 2)

    # ------------------------------------------------------------------
    def _store_routing(self, rel: Relation) -> None:
        """R03.5: every method an owning collection resolves (own, inherited
        from the wrapper base, or an abc mixin) reaches the store only through
        the primitives analysed above."""
        K = rel.coll
        own_prims = set()
        bp = rel.backptr
        for f in K.methods.values():
            for n in walk_no_nested(f.node):
                if isinstance(n, ast.Assign) and any(
                        isinstance(t, ast.Attribute) and t.attr == bp for t in n.targets):
                    own_prims.add(f.name)
        names: Set[str] = set()
        for c in K.mro_classes():
            names.update(c.methods)
        checked = 0
        for nm in sorted(names):
            prov = K.find_method(nm)
            if prov is None or nm == "__init__":
                continue
            muts = direct_store_mutations(prov, "_data")
            if not muts:
                continue
            checked += 1
            self.functions.add(prov.qualname)
            if prov.cls is K:
                ok = nm in own_prims
                self.add("C04", "R03.5", "%s.%s:direct-store" % (K.qualname, nm), ok, prov.loc(muts[0]),
                         "%s mutates the store directly (%s) but does not maintain the element "
                         "back-pointer" % (prov.qualname, unparse(muts[0])[:50]), 2)
            elif rel.kind == "set":
                # inherited from the wrapper base: only legal if K overrides it... it does not
                self.add("C04", "R03.5", "%s.%s:inherited-direct-store" % (K.qualname, nm), False,
                         prov.loc(muts[0]),
                         "%s resolves %s to %s, which mutates the store directly (%s) and so "
                         "bypasses the ownership primitives of %s"
                         % (K.qualname, nm, prov.qualname, unparse(muts[0])[:50], K.qualname), 2)
            # list wrappers: base methods mutate directly but through hooks -> _list_hooks
        self.count("store_routing_methods", checked)

    # ------------------------------------------------------------------
    def _list_hooks(self) -> None:
        """R03.3 (second shape): in ListWrapper and subclasses every store
        insertion of x is dominated by self._add(x) and every removal of
        position k by self._remove(self._data[k])."""
        lw = self.repo.cls("ListWrapper")
        classes = [lw] + self.repo.subclasses(lw)
        sites = 0
        for c in classes:
            for f in c.methods.values():
                if f.name == "__init__":
                    continue
                muts = direct_store_mutations(f, "_data")
                if not muts:
                    continue
                self.functions.add(f.qualname)
                cfg = CFG(f.node)
                al = local_aliases(f.node)
                me = f.self_name or "self"
                add_hooks: List[Tuple[int, ast.Call]] = []
                rm_hooks: List[Tuple[int, ast.Call]] = []
                for n in walk_no_nested(f.node):
                    if isinstance(n, ast.Call):
                        p = attr_path(n.func)
                        if p == (me, "_add"):
                            add_hooks.append((cfg.node_of(n), n))
                        elif p == (me, "_remove"):
                            rm_hooks.append((cfg.node_of(n), n))
                for m in muts:
                    sites += 1
                    nm = cfg.node_of(m)
                    adds, removes, val = _classify_mutation(m)
                    key = "%s:%s" % (f.qualname, _norm(unparse(m))[:40])
                    if adds:
                        good = [(hn, h) for hn, h in add_hooks
                                if len(h.args) == 1 and _same_value(h.args[0], val, h, al)]
                        ok = _hooks_cover(cfg, good, nm)
                        self.add("C04", "R03.3", key + ":add-hook", ok, f.loc(m),
                                 "store insertion %s in %s is not preceded on every path by the "
                                 "ownership hook self._add(<the inserted value>)"
                                 % (unparse(m)[:50], f.qualname), 2)
                    if removes:
                        good = []
                        for hn, h in rm_hooks:
                            a0 = h.args[0] if len(h.args) == 1 else None
                            if isinstance(a0, ast.Subscript) and expand_path(a0.value, al) == (me, "_data"):
                                good.append((hn, h))
                        ok = _hooks_cover(cfg, good, nm)
                        self.add("C04", "R03.3", key + ":remove-hook", ok, f.loc(m),
                                 "store removal %s in %s is not preceded on every path by the "
                                 "ownership hook self._remove(self._data[k])"
                                 % (unparse(m)[:50], f.qualname), 2)
        self.counts["list_store_sites"] = sites
        self._int_index_domain(classes)

    def _int_index_domain(self, classes: List[ClassInfo]) -> None:
        """for a plain integer index the hooks must visit exactly that position: the index set
        is range(i, i + 1) / the index itself - never a slice built from it (slice(i, i + 1) is
        empty for i == -1, so the element would leave the list un-unlinked)"""
        for c in classes:
            for f in c.methods.values():
                ps = f.param_names()
                if f.name not in ("__setitem__", "__delitem__") or len(ps) < 2:
                    continue
                idx = ps[1]
                bad = []
                for n in walk_no_nested(f.node):
                    if isinstance(n, ast.Call) and attr_path(n.func) == ("slice",) and len(n.args) >= 2:
                        names = {x.id for a in n.args for x in ast.walk(a) if isinstance(x, ast.Name)}
                        if idx in names:
                            bad.append(n)
                self.functions.add(f.qualname)
                self.add("C04", "R03.3", "%s:int-index-visits-that-position" % f.qualname, not bad,
                         f.loc(bad[0]) if bad else f.loc(),
                         "%s turns an integer index into %s: for a negative index the slice is empty, "
                         "the ownership hooks visit nothing, and the element is removed from (or "
                         "replaced in) the list while it still names the list's owner"
                         % (f.qualname, unparse(bad[0]) if bad else ""), 2)

    # ------------------------------------------------------------------
    def children_of(self, cls: ClassInfo) -> List[Tuple[str, Relation]]:
        out = []
        for r in self.relations:
            if r.owner is cls:
                for a in r.attrs:
                    out.append((a, r))
        return out

    def element_classes(self) -> List[ClassInfo]:
        out: List[ClassInfo] = []
        for r in self.relations:
            for e in r.elements:
                if e not in out:
                    out.append(e)
        return out

    def _subtree_recursion(self) -> None:
        """R03.4"""
        for e in self.element_classes():
            kids = [a for a, _ in self.children_of(e)]
            for nm in ("_add_to_uuid_cache", "_remove_from_uuid_cache"):
                f = e.find_method(nm)
                key = "%s.%s" % (e.qualname, nm)
                if f is None:
                    self.add("C03", "R03.4", key, False, e.loc(),
                             "%s is an element of an owning collection but resolves no %s"
                             % (e.qualname, nm))
                    continue
                self.functions.add(f.qualname)
                cfg = CFG(f.node)
                cache = f.param_names()[1] if len(f.param_names()) > 1 else "cache"
                me = f.self_name or "self"
                if nm.startswith("_add"):
                    own = cfg.nodes_where(lambda n: isinstance(n, ast.Assign) and any(
                        isinstance(t, ast.Subscript) and isinstance(t.value, ast.Name)
                        and t.value.id == cache and attr_path(t.slice) == (me, "uuid")
                        for t in n.targets) and attr_path(n.value) == (me,))
                else:
                    own = cfg.nodes_where(lambda n: isinstance(n, ast.Delete) and any(
                        isinstance(t, ast.Subscript) and isinstance(t.value, ast.Name)
                        and t.value.id == cache and attr_path(t.slice) == (me, "uuid")
                        for t in n.targets))
                wit = cfg.path_avoiding(cfg.entry, cfg.exit, own)
                self.add("C03", "R03.4", key + ":own-entry", wit is None, f.loc(),
                         "%s does not %s cache[self.uuid] on every path"
                         % (f.qualname, "set" if nm.startswith("_add") else "delete"), 2)
                # children: exactly the owning collections, if the method is the class's own
                # (inherited leaf implementations are fine only when there are no children)
                looped: Dict[str, bool] = {}
                for n in walk_no_nested(f.node):
                    if isinstance(n, ast.For) and isinstance(n.target, ast.Name):
                        p = attr_path(n.iter)
                        if p and len(p) == 2 and p[0] == me:
                            v = n.target.id
                            calls = [c for c in ast.walk(n) if isinstance(c, ast.Call)
                                     and attr_path(c.func) == (v, nm) and len(c.args) == 1
                                     and isinstance(c.args[0], ast.Name) and c.args[0].id == cache]
                            if calls:
                                hn = cfg.by_ast[id(n)]
                                looped[p[1]] = cfg.path_avoiding(cfg.entry, cfg.exit, {hn}) is None
                for k in kids:
                    self.add("C03", "R03.4", "%s:child(%s)" % (key, k), looped.get(k, False), f.loc(),
                             "%s does not recurse into the owning collection '%s' on every path: "
                             "nodes below would stay %s the IR table" %
                             (f.qualname, k, "out of" if nm.startswith("_add") else "in"), 2)
                for k in looped:
                    if k not in kids:
                        self.add("C03", "R03.4", "%s:extra-child(%s)" % (key, k), False, f.loc(),
                                 "%s recurses into '%s', which is not an owning collection of %s"
                                 % (f.qualname, k, e.qualname), 1)

    # ------------------------------------------------------------------
    def _loader_registration(self) -> None:
        """R03.6: each element class's _decode_protobuf registers the object it
        returns in ir._local_uuid_cache before returning."""
        n = 0
        for e in self.element_classes() + [c for c in self.repo.classes.values()
                                          if any(c.is_subclass_of(x) and c is not x
                                                 for x in self.element_classes())]:
            f = e.methods.get("_decode_protobuf")
            if f is None:
                continue
            if _only_raises(f.node):
                continue
            n += 1
            self.functions.add(f.qualname)
            cfg = CFG(f.node)
            al = local_aliases(f.node)
            rets = [r for r in walk_no_nested(f.node) if isinstance(r, ast.Return)]
            irname = f.param_names()[-1]
            for r in rets:
                key = "%s:return" % f.qualname
                if not isinstance(r.value, ast.Name):
                    self.add("C03", "R03.6", key, False, f.loc(r),
                             "decoder returns an unnamed object; registration cannot be established")
                    continue
                v = r.value.id

                def is_reg(c: ast.Call) -> bool:
                    p = attr_path(c.func)
                    return p == (v, "_add_to_uuid_cache") and len(c.args) == 1 and \
                        expand_path(c.args[0], al) == (irname, "_local_uuid_cache")
                regs = self._calls(cfg, is_reg)
                wit = cfg.path_avoiding(cfg.entry, cfg.node_of(r), regs)
                self.add("C03", "R03.6", key, wit is None, f.loc(r),
                         "%s can return '%s' without having registered it in the loading IR's "
                         "table (%s._local_uuid_cache): later references to it would not resolve: %s"
                         % (f.qualname, v, irname, _p(cfg, wit)), 2)
        self.counts["loader_registrations"] = n

    # ------------------------------------------------------------------
    def _parent_setters(self) -> None:
        """R04.1"""
        n = 0
        for rel in self.relations:
            bp = rel.backptr
            for e in self._classes_defining_backptr(rel):
                # property whose getter returns self.<bp>
                for pname, prop in e.props.items():
                    g = prop.getter
                    if g is None:
                        continue
                    rets = [r for r in walk_no_nested(g.node) if isinstance(r, ast.Return)]
                    if not (len(rets) == 1 and rets[0].value is not None and
                            attr_path(rets[0].value) == (g.self_name, bp)):
                        continue
                    n += 1
                    key = "%s.%s" % (e.qualname, pname)
                    s = prop.setter
                    if s is None:
                        continue   # read-only parent attribute: nothing to keep consistent
                    self.functions.add(s.qualname)
                    self._setter(rel, e, s, key)
        self.counts["parent_setters"] = n

    def _classes_defining_backptr(self, rel: Relation) -> List[ClassInfo]:
        out = []
        for c in self.repo.classes.values():
            init = c.methods.get("__init__")
            if init is None:
                continue
            for n in walk_no_nested(init.node):
                t = None
                if isinstance(n, ast.AnnAssign):
                    t = n.target
                elif isinstance(n, ast.Assign) and len(n.targets) == 1:
                    t = n.targets[0]
                if t is not None and attr_path(t) == (init.self_name, rel.backptr):
                    if any(c.is_subclass_of(e) or e.is_subclass_of(c) for e in rel.elements):
                        out.append(c)
                    break
        return out

    def _setter(self, rel: Relation, e: ClassInfo, s: FuncInfo, key: str) -> None:
        bp = rel.backptr
        me = s.self_name or "self"
        ps = s.param_names()
        val = ps[1] if len(ps) > 1 else "value"
        cfg = CFG(s.node)
        al = local_aliases(s.node)
        attrs_for_e = [a for a, es in rel.attrs.items()
                       if any(e.is_subclass_of(x) or x.is_subclass_of(e) for x in es)]

        def call_on(base: Tuple[str, ...], meths: Tuple[str, ...]):
            def pred(c: ast.Call) -> bool:
                if not (isinstance(c.func, ast.Attribute) and c.func.attr in meths):
                    return False
                if not (len(c.args) == 1 and attr_path(c.args[0]) == (me,)):
                    return False
                p = expand_path(c.func.value, al)
                return bool(p) and p[:-1] == base and p[-1] in attrs_for_e
            return pred
        det = self._calls(cfg, call_on((me, bp), ("discard", "remove")))
        att = self._calls(cfg, call_on((val,), ("add", "append")))
        wit = cfg.path_avoiding(cfg.entry, cfg.exit, det | self._none_branches(cfg, (me, bp), al, True))
        self.add("C04", "R04.1", key + ":leave-old", wit is None, s.loc(),
                 "setter %s does not remove the node from its current parent's collection (%s) "
                 "on every path where it has one: %s" % (key, "/".join(attrs_for_e), _p(cfg, wit)), 2)
        wit = cfg.path_avoiding(cfg.entry, cfg.exit, att | self._none_branches(cfg, (val,), al, True))
        self.add("C04", "R04.1", key + ":join-new", wit is None, s.loc(),
                 "setter %s does not add the node to the new parent's collection (%s) on every "
                 "path where the new parent is not None: %s" % (key, "/".join(attrs_for_e), _p(cfg, wit)), 2)
        # wrong collection used?
        wrong = self._calls(cfg, lambda c: isinstance(c.func, ast.Attribute)
                            and c.func.attr in ("add", "append", "discard", "remove")
                            and len(c.args) == 1 and attr_path(c.args[0]) == (me,)) - det - att
        self.add("C04", "R04.1", key + ":collection", not wrong, s.loc(),
                 "setter %s moves the node through a collection that is not the one holding %s "
                 "elements (%s)" % (key, e.qualname, "/".join(attrs_for_e)), 1)

    # ------------------------------------------------------------------
    def _field_agreement(self) -> None:
        """R04.2"""
        for rel in self.relations:
            for a, fc in rel.field_consts.items():
                if fc is None:
                    continue
                self.add("C04", "R04.2", "%s.%s:field" % (rel.owner.qualname, a), fc == a,
                         rel.owner.loc(rel.owner.methods["__init__"].node),
                         "%s.%s is constructed with field name %r: a node moved away would be "
                         "discarded from the wrong collection of its previous owner"
                         % (rel.owner.qualname, a, fc), 2)


# ---------------------------------------------------------------------------


def direct_store_mutations(f: FuncInfo, store: str) -> List[ast.AST]:
    """AST nodes in ``f`` that mutate ``self.<store>`` in place."""
    me = f.self_name
    if me is None:
        return []
    al = local_aliases(f.node)
    out: List[ast.AST] = []
    for n in walk_no_nested(f.node):
        if isinstance(n, ast.Call) and isinstance(n.func, ast.Attribute) \
                and n.func.attr in MUTATORS | {"move_to_end"}:
            if expand_path(n.func.value, al) == (me, store):
                out.append(n)
        elif isinstance(n, (ast.Assign, ast.AugAssign, ast.Delete, ast.AnnAssign)):
            tg = n.targets if isinstance(n, (ast.Assign, ast.Delete)) else [n.target]
            for t in _flatten(tg):
                if isinstance(t, ast.Subscript) and expand_path(t.value, al) == (me, store):
                    out.append(n)
                elif isinstance(n, ast.AugAssign) and expand_path(t, al) == (me, store):
                    out.append(n)
    return out


def _classify_mutation(m: ast.AST) -> Tuple[bool, bool, Optional[ast.AST]]:
    """(adds elements, removes elements, inserted value expr)"""
    if isinstance(m, ast.Call):
        nm = m.func.attr  # type: ignore[attr-defined]
        if nm == "insert":
            return True, False, m.args[1] if len(m.args) > 1 else None
        if nm in ("append", "add", "extend", "update", "__iadd__"):
            return True, False, m.args[0] if m.args else None
        if nm in ("reverse", "sort"):
            return False, False, None
        if nm == "__setitem__":
            return True, True, m.args[1] if len(m.args) > 1 else None
        return False, True, None
    if isinstance(m, ast.Assign):
        return True, True, m.value
    if isinstance(m, ast.AugAssign):
        return True, False, m.value
    if isinstance(m, ast.Delete):
        return False, True, None
    return True, True, None


def _same_value(hook_arg: ast.AST, stored: Optional[ast.AST], hook: ast.Call,
                al: Dict[str, ast.AST]) -> bool:
    if stored is None:
        return False
    if isinstance(hook_arg, ast.Name):
        # direct: self._add(v) ... insert(i, v)
        if isinstance(stored, ast.Name) and stored.id == hook_arg.id:
            return True
        # loop: for value in values: self._add(value) ... self._data[i] = values / values[0]
        cur = getattr(hook, "_parent", None)
        while cur is not None:
            if isinstance(cur, ast.For) and isinstance(cur.target, ast.Name) \
                    and cur.target.id == hook_arg.id and isinstance(cur.iter, ast.Name):
                base = stored
                if isinstance(base, ast.Subscript):
                    base = base.value
                return isinstance(base, ast.Name) and base.id == cur.iter.id
            cur = getattr(cur, "_parent", None)
    return False


def _hooks_cover(cfg: CFG, hooks: List[Tuple[int, ast.Call]], target: int) -> bool:
    """every path to ``target`` runs one of the hooks, or passes a loop every iteration of which
    runs one (a loop over the elements concerned: zero elements need no hook) — the hooks may sit
    in different branches"""
    if not hooks:
        return False
    hits: Set[int] = set()
    for hn, h in hooks:
        hits.add(hn)
        cur = getattr(h, "_parent", None)
        while cur is not None and cur is not cfg.fn:
            if isinstance(cur, ast.For):
                head = cfg.by_ast.get(id(cur))
                if head:
                    body_in = [s for s in cfg.g.successors(head)
                               if cfg.info[s].kind == "branch" and cfg.info[s].value]
                    if body_in and cfg.path_avoiding(body_in[0], head, {hn}) is None:
                        hits.add(head)
            cur = getattr(cur, "_parent", None)
    return cfg.path_avoiding(cfg.entry, target, hits) is None


def _dominates_or_loop_dominates(cfg: CFG, hn: int, h: ast.Call, target: int) -> bool:
    if cfg.dominates(hn, target):
        return True
    cur = getattr(h, "_parent", None)
    while cur is not None and cur is not cfg.fn:
        if isinstance(cur, ast.For):
            head = cfg.by_ast.get(id(cur))
            # hook runs on every iteration of a loop whose head dominates the target
            if head and cfg.dominates(head, target):
                body_in = [s for s in cfg.g.successors(head)
                           if cfg.info[s].kind == "branch" and cfg.info[s].value]
                if body_in and cfg.path_avoiding(body_in[0], head, {hn}) is None:
                    return True
        cur = getattr(cur, "_parent", None)
    return False


def _flatten(ts: Iterable[ast.AST]) -> List[ast.AST]:
    out: List[ast.AST] = []
    for t in ts:
        if isinstance(t, (ast.Tuple, ast.List)):
            out.extend(_flatten(t.elts))
        elif isinstance(t, ast.Starred):
            out.extend(_flatten([t.value]))
        else:
            out.append(t)
    return out


def _neg(cfg: CFG, branches: Set[int]) -> Set[int]:
    """sibling branch nodes (the other outcome of the same tests)"""
    out: Set[int] = set()
    for b in branches:
        t = cfg.info[b].test
        for s in cfg.g.successors(t):
            if s != b and cfg.info[s].kind == "branch":
                out.add(s)
    return out


def _only_raises(fn: ast.FunctionDef) -> bool:
    body = [s for s in fn.body if not (isinstance(s, ast.Expr) and isinstance(s.value, ast.Constant))]
    return len(body) == 1 and isinstance(body[0], ast.Raise)


def _p(cfg: CFG, path: Optional[List[int]]) -> str:
    if path is None:
        return "-"
    return " -> ".join(cfg.describe_path(path))


def _norm(s: str) -> str:
    return "".join(ch if ch.isalnum() or ch in "._[]=" else "_" for ch in s.replace(" ", ""))


_CACHE: Dict[str, Ownership] = {}


def ownership(repo: Repo) -> Ownership:
    k = str(id(repo))
    if k not in _CACHE:
        _CACHE[k] = Ownership(repo)
    return _CACHE[k]
