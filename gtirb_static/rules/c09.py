"""C09 — After load every reference is the attached object itself."""
from __future__ import annotations

import ast

from ..model import AnalysisError, attr_path, dotted, local_aliases, unparse, walk_no_nested
from ..report import Check
from .loader import from_protobuf_cache, lookup_bindings, reference_sites, stage_order
from .ownership import ownership
from .purity import no_result_caches, value_passthrough, codec_state

RULES = {
    "R09.1": "references resolve only through the loading IR's table, with a kind check that "
             "fails into DeserializationError; Node._from_protobuf reuses a cached node only of "
             "the right class and decodes only on a miss",
    "R09.2": "producer-before-consumer in the staged decoders of Module and IR",
    "R09.3": "every decoder registers the node it returns (so later stages can find it)",
    "R09.4": "lazy AuxData resolves UUID/Offset entries against the loading IR",
    "R09.5": "no state shared between loads on the decode path (codecs, AuxData): a node resolved "
             "for one IR can never be handed to another",
}


def run(chk: Check) -> None:
    chk.explanation = (
        "Identity of references after load follows from: references are never decoded into "
        "fresh nodes but looked up (through UUID(bytes=..) and get_by_uuid of the loading IR) "
        "with a kind check whose failing outcome raises DeserializationError on every path "
        "(CFG); every decoded node is registered; stages that consume a kind come after the "
        "stages that produce it (call-graph closure over the stage lists).  That UUIDs are "
        "unique per kind in a given file is assumed.")
    for k, v in RULES.items():
        chk.rule(k, v)
    n = reference_sites(chk, "R09.1")
    chk.floor("R09.1", "reference resolution sites", n, 5)
    from_protobuf_cache(chk, "R09.1")
    nb = lookup_bindings(chk, "R09.1")
    chk.floor("R09.1", "decoders handed a lookup callable", nb, 2)
    from .loader import deferred_stage
    deferred_stage(chk, "R09.2")
    n = stage_order(chk, "R09.2")
    chk.floor("R09.2", "consumer stages", n, 4)
    chk.floor("R09.2", "deferred decode call sites", deferred_pass_unconditional(chk, "R09.2"), 1)
    _tables_resolve(chk)
    own = ownership(chk.repo)
    k = 0
    for prop, rule, construct, ok, loc, msg, facts in own.obs:
        if rule == "R03.6":
            chk.ob("R09.3", construct, ok, loc, msg, facts)
            k += 1
    chk.floor("R09.3", "loader registrations", k, 4)
    _lazy_auxdata(chk)
    from .lookups import truthiness_safe
    truthiness_safe(chk, "R09.1")
    codec_state(chk, "R09.5", ("serialization", "auxdata", "offset"))
    no_result_caches(chk, "R09.5")
    from .c07 import run as _c07
    sub = chk.sub()
    _c07(sub)
    chk.adopt(sub, lambda o: "get_by_uuid" in o.construct or o.rule == "R07.4", "R09.4")
    _no_decode_during_load(chk)
    from .c17 import _no_swallow
    sub = chk.sub()
    _no_swallow(sub)
    chk.adopt(sub, None, "R09.1")
    # every decoded (hence registered) child ends up in the collection it was read for
    from .c02 import _facts as _c02_facts, _reader_agreement
    schema_, pf_ = _c02_facts(chk)
    sub = chk.sub()
    _reader_agreement(sub, schema_, pf_, [m for m in schema_.reachable("IR")] + ["Offset"])
    chk.adopt(sub, lambda o: ":flows-to(" in o.construct, "R09.3")


def _lazy_auxdata(chk: Check) -> None:
    repo = chk.repo
    ad = repo.cls("AuxData")
    f = ad.methods.get("_from_protobuf")
    lc = repo.cls("_LazyDataContainer")
    if f is None:
        raise AnalysisError("anchor vanished: AuxData._from_protobuf")
    chk.saw(f)
    irp = f.param_names()[-1]
    ctor = [c for c in walk_no_nested(f.node) if isinstance(c, ast.Call)
            and (dotted(c.func) or ("",))[-1] == "_LazyDataContainer"]
    init = lc.methods.get("__init__")
    ok = False
    why = "no _LazyDataContainer is built"
    if len(ctor) == 1 and init is not None:
        ps = init.param_names()[1:]
        binding = {}
        for i, a in enumerate(ctor[0].args):
            if i < len(ps):
                binding[ps[i]] = a
        for k in ctor[0].keywords:
            binding[k.arg] = k.value
        g = binding.get("get_by_uuid")
        ok = g is not None and attr_path(g) == (irp, "get_by_uuid")
        why = "get_by_uuid bound to %s" % (unparse(g) if g is not None else "nothing")
    chk.ob("R09.4", "AuxData._from_protobuf:binds-loading-ir", ok, f.loc(),
           "the lazy container must resolve UUIDs with the get_by_uuid of the IR being loaded (%s)" % why, 3)
    gd = lc.methods.get("get_data")
    if gd is None:
        raise AnalysisError("anchor vanished: _LazyDataContainer.get_data")
    chk.saw(gd)
    dec = [c for c in walk_no_nested(gd.node) if isinstance(c, ast.Call)
           and isinstance(c.func, ast.Attribute) and c.func.attr == "decode"]
    ok = len(dec) == 1
    if ok:
        args = list(dec[0].args) + [k.value for k in dec[0].keywords if k.arg == "get_by_uuid"]
        ok = len(args) >= 3 and attr_path(args[2]) == (gd.self_name, "get_by_uuid") and \
            attr_path(args[0]) == (gd.self_name, "raw_data") and attr_path(args[1]) == (gd.self_name, "type_name")
    chk.ob("R09.4", "_LazyDataContainer.get_data:passes-lookup", ok, gd.loc(),
           "get_data must decode self.raw_data under self.type_name with self.get_by_uuid", 3)
    # the container stores what it was given
    if init is not None:
        chk.saw(init)
        stored = {attr_path(n.targets[0])[-1]: attr_path(n.value) for n in walk_no_nested(init.node)
                  if isinstance(n, ast.Assign) and attr_path(n.targets[0]) and attr_path(n.value)}
        stored.update({attr_path(n.target)[-1]: attr_path(n.value) for n in walk_no_nested(init.node)
                       if isinstance(n, ast.AnnAssign) and attr_path(n.target) and n.value is not None
                       and attr_path(n.value)})
        ok = stored.get("get_by_uuid") == ("get_by_uuid",) and stored.get("raw_data") == ("raw_data",) \
            and stored.get("type_name") == ("type_name",)
        chk.ob("R09.4", "_LazyDataContainer.__init__:stores-arguments", ok, init.loc(),
               "the container must keep raw_data, type_name and get_by_uuid as given (%s)" % stored, 2)


def _no_decode_during_load(chk: Check) -> None:
    """AuxData must stay undecoded while the IR is being loaded: a table decoded before all
    modules exist resolves references to later nodes as plain UUIDs for good."""
    repo = chk.repo
    from .c01 import _is_reader
    n = 0
    for f in repo.all_functions():
        in_aux = f.cls is not None and f.cls.name in ("AuxData", "AuxDataContainer") and \
            f.name in ("_from_protobuf", "_read_protobuf_aux_data")
        if not (_is_reader(f) or in_aux):
            continue
        n += 1
        bad = []
        for x in walk_no_nested(f.node):
            if isinstance(x, ast.Call) and isinstance(x.func, ast.Attribute) and \
                    x.func.attr in ("get_data",) :
                bad.append(x)
            if isinstance(x, ast.Call) and isinstance(x.func, ast.Attribute) and x.func.attr == "decode" \
                    and "serializer" in unparse(x.func.value):
                bad.append(x)
            if isinstance(x, ast.Attribute) and x.attr == "data" and isinstance(x.ctx, ast.Load) and in_aux:
                # <AuxData>.data (the decoding property) - message fields named data are read
                # through the proto parameter, which is typed by the schema analysis
                base = attr_path(x.value)
                if base and base[0] not in f.param_names():
                    bad.append(x)
        chk.ob("R09.4", "%s:no-decode-during-load" % f.qualname, not bad, f.loc(bad[0]) if bad else f.loc(),
               "%s decodes AuxData while the IR is still being loaded (%s): entries naming nodes that "
               "are decoded later stay plain UUIDs" % (f.qualname, unparse(bad[0])[:50] if bad else ""), 1)
    chk.extra["load_path_functions"] = n


def deferred_pass_unconditional(chk: Check, rule: str) -> int:
    """the pass that decodes what was deferred (the symbolic expressions of every interval, once
    the symbols exist) runs for every interval of every section: it is not skipped under a
    condition - expressions may name symbols of other modules"""
    n = 0
    for f in chk.repo.all_functions():
        for c in walk_no_nested(f.node):
            if not (isinstance(c, ast.Call) and isinstance(c.func, ast.Attribute)
                    and c.func.attr == "_decode_symbolic_expressions"):
                continue
            n += 1
            chk.saw(f)
            conds = []
            cur = getattr(c, "_parent", None)
            while cur is not None and cur is not f.node:
                if isinstance(cur, (ast.If, ast.While, ast.IfExp)):
                    conds.append(cur)
                elif isinstance(cur, (ast.GeneratorExp, ast.ListComp, ast.SetComp)) and any(g_.ifs for g_ in cur.generators):
                    conds.append(cur)
                cur = getattr(cur, "_parent", None)
            chk.ob(rule, "%s:deferred-pass-unconditional" % f.qualname, not conds, f.loc(conds[0]) if conds else f.loc(c),
                   "%s decodes the deferred symbolic expressions only under a condition (%s): the intervals it "
                   "skips come back without their expressions" % (f.qualname, unparse(conds[0].test)[:50] if conds and hasattr(conds[0], "test") else "-"), 2)
    return n


def _tables_resolve(chk: Check) -> None:
    # ... and the containers hand their tables the IR that is being loaded, nothing narrower
    n_calls = 0
    for g_ in chk.repo.all_functions():
        for c_ in walk_no_nested(g_.node):
            if not (isinstance(c_, ast.Call) and isinstance(c_.func, ast.Attribute)
                    and c_.func.attr == "_read_protobuf_aux_data" and len(c_.args) + len(c_.keywords) >= 2):
                continue
            n_calls += 1
            chk.saw(g_)
            a_ = c_.args[1] if len(c_.args) >= 2 else c_.keywords[-1].value
            ok_ = False
            if isinstance(a_, ast.Name):
                prm = next((x for x in ast.walk(g_.node.args) if isinstance(x, ast.arg) and x.arg == a_.id), None)
                if prm is not None and prm.annotation is not None and "IR" in unparse(prm.annotation):
                    ok_ = True
                elif g_.cls is not None and g_.cls.name == "IR":
                    binds = [x for x in walk_no_nested(g_.node) if isinstance(x, (ast.Assign, ast.AnnAssign))
                             and any(isinstance(t_, ast.Name) and t_.id == a_.id
                                     for t_ in (x.targets if isinstance(x, ast.Assign) else [x.target]))]
                    ok_ = len(binds) == 1 and isinstance(binds[0].value, ast.Call) and \
                        attr_path(binds[0].value.func) in (("cls",), ("IR",))
            chk.ob("R09.4", "%s:tables-resolve-in-the-loading-ir" % g_.qualname, ok_, g_.loc(c_),
                   "%s reads its AuxData tables with %s as the place to look nodes up: entries may name any node "
                   "of the IR that is being loaded, so it must be that IR" % (g_.qualname, unparse(a_)), 2)
    chk.floor("R09.4", "_read_protobuf_aux_data call sites", n_calls, 2)
