"""Shared loader facts for C09 and C17: reference resolution sites, decode
stages, exception discipline."""
from __future__ import annotations

import ast
from typing import Dict, List, Optional, Set, Tuple

from ..cfg import CFG
from ..model import (AnalysisError, ClassInfo, FuncInfo, Repo, attr_path, dotted, expand_path,
                     local_aliases, unparse, walk_no_nested)
from ..proto_schema import Schema
from ..protoflow import Access, ProtoFlow
from ..report import Check
from .c02 import _facts

# reference field -> kind the resolved node must have (from the property text)
KIND = {
    ("Module", "entry_point"): "CodeBlock",
    ("Symbol", "referent_uuid"): "Block",
    ("Edge", "source_uuid"): "CfgNode",
    ("Edge", "target_uuid"): "CfgNode",
    ("SymAddrConst", "symbol_uuid"): "Symbol",
    ("SymAddrAddr", "symbol1_uuid"): "Symbol",
    ("SymAddrAddr", "symbol2_uuid"): "Symbol",
    ("Offset", "element_id"): None,          # any attached node: a not-None test
}
NOT_REFERENCES = {"uuid", "contents", "data", "vertices"}


def reference_fields(schema: Schema) -> List[Tuple[str, str]]:
    out = []
    for m in schema.messages.values():
        if m.name == "SymStackConst":
            continue
        for f in m.fields.values():
            if f.type == "bytes" and f.name not in NOT_REFERENCES:
                out.append((m.name, f.name))
    return sorted(out)


def _stmt_of(n: ast.AST) -> Optional[ast.stmt]:
    cur: Optional[ast.AST] = n
    while cur is not None and not isinstance(cur, ast.stmt):
        cur = getattr(cur, "_parent", None)
    return cur  # type: ignore[return-value]


def _raises(cfg: CFG, branch: int, exc_names: Tuple[str, ...]) -> bool:
    """every path from ``branch`` ends in a raise of one of exc_names (never a normal exit)"""
    reach = cfg.reachable(branch)
    if cfg.exit in reach:
        return False
    ok = False
    for n in reach:
        i = cfg.info[n]
        if i.kind == "stmt" and isinstance(i.ast, ast.Raise):
            e = i.ast.exc
            d = dotted(e.func if isinstance(e, ast.Call) else e) if e is not None else None
            if d and d[-1] in exc_names:
                ok = True
            else:
                return False
    return ok


def _is_presence_test(node: ast.AST) -> bool:
    """the value is only tested for truth (``if x:``, ``if not x:``, ``x and ...`` in a test)"""
    cur = node
    par = getattr(cur, "_parent", None)
    while isinstance(par, (ast.UnaryOp, ast.BoolOp)):
        if isinstance(par, ast.UnaryOp) and not isinstance(par.op, ast.Not):
            return False
        cur, par = par, getattr(par, "_parent", None)
    return isinstance(par, (ast.If, ast.IfExp, ast.While)) and par.test is cur


def reference_sites(chk: Check, rule: str) -> int:
    """R09.1: every read of a reference field goes UUID(bytes=..) -> get_by_uuid ->
    isinstance check failing into DeserializationError -> use."""
    schema, pf = _facts(chk)
    repo = chk.repo
    n_sites = 0
    for (m, fname) in reference_fields(schema):
        if (m, fname) not in KIND:
            chk.ob(rule, "%s.%s:kind-known" % (m, fname), False, "proto/%s.proto:1" % m,
                   "the schema has a reference field %s.%s the kind table does not know: its "
                   "resolution is unchecked" % (m, fname), 1)
            continue
        reads = [r for r in pf.read(m, fname) if r.how == "load"]
        want = KIND[(m, fname)]
        # a read bound to a local that is assigned once is read where that local is used
        expanded = []
        for r in reads:
            par0 = getattr(r.node, "_parent", None)
            if isinstance(par0, ast.Assign) and len(par0.targets) == 1 and isinstance(par0.targets[0], ast.Name) \
                    and par0.value is r.node and par0.targets[0].id in local_aliases(r.f.node):
                nm0 = par0.targets[0].id
                uses0 = [x for x in walk_no_nested(r.f.node) if isinstance(x, ast.Name) and x.id == nm0
                         and isinstance(x.ctx, ast.Load)]
                if uses0:
                    from ..protoflow import Access
                    expanded.extend(Access(r.msg, r.field, r.f, x, r.how) for x in uses0)
                    continue
            expanded.append(r)
        for r in expanded:
            f = r.f
            par = getattr(r.node, "_parent", None)
            # presence tests (``if proto_module.entry_point:``) are not resolutions
            if _is_presence_test(r.node):
                continue
            key = "%s.%s@%s" % (m, fname, f.qualname)
            n_sites += 1
            chk.saw(f)
            al = local_aliases(f.node)
            cfg = CFG(f.node)
            # UUID(bytes=<read>)
            call = par if isinstance(par, ast.keyword) else None
            ucall = getattr(call, "_parent", None) if call is not None else None
            ok_uuid = isinstance(ucall, ast.Call) and attr_path(ucall.func) == ("UUID",) and call.arg == "bytes"
            if not ok_uuid:
                chk.ob(rule, key + ":uuid", False, f.loc(r.node),
                       "reference field %s.%s is not converted with UUID(bytes=...) (wrong-length "
                       "UUIDs would not be rejected): %s" % (m, fname, unparse(_stmt_of(r.node))[:60]), 2)
                continue
            st = _stmt_of(ucall)
            uvar = st.targets[0].id if isinstance(st, ast.Assign) and isinstance(st.targets[0], ast.Name) \
                and st.value is ucall else None
            # lookup: X = <...>.get_by_uuid(uvar) / get_by_uuid(uvar)
            lookups = []
            for n in walk_no_nested(f.node):
                if isinstance(n, ast.Call) and len(n.args) == 1 and (
                        (uvar and attr_path(n.args[0]) == (uvar,)) or n.args[0] is ucall):
                    p = attr_path(n.func)
                    if p and p[-1] == "get_by_uuid":
                        lookups.append(n)
            if len(lookups) != 1:
                chk.ob(rule, key + ":lookup", False, f.loc(r.node),
                       "the UUID read from %s.%s is not resolved through get_by_uuid exactly once "
                       "(found %d lookups): references must denote nodes already attached to the "
                       "loading IR" % (m, fname, len(lookups)), 2)
                continue
            lk = lookups[0]
            p = attr_path(lk.func)
            irparam = [a for a in f.param_names() if a == "ir"]
            src_ok = p == ("get_by_uuid",) and "get_by_uuid" in f.param_names() or \
                (len(p) == 2 and p[0] in f.param_names() + (f.outer.param_names() if f.outer else []))
            chk.ob(rule, key + ":lookup-source", src_ok, f.loc(lk),
                   "the lookup %s is not the loading IR's get_by_uuid (or the callable bound to it)"
                   % unparse(lk.func), 2)
            st2 = _stmt_of(lk)
            xvar = st2.targets[0].id if isinstance(st2, ast.Assign) and isinstance(st2.targets[0], ast.Name) \
                and st2.value is lk else None
            if xvar is None:
                chk.ob(rule, key + ":checked", False, f.loc(lk),
                       "the node resolved for %s.%s is used without being bound and kind-checked" % (m, fname), 2)
                continue
            # kind test on xvar
            good: Set[int] = set()
            bad_br: Set[int] = set()
            test_nodes: Set[int] = set()
            for n, i in cfg.info.items():
                if i.kind != "test":
                    continue
                t = i.ast
                kind_test = None
                if want is not None and isinstance(t, ast.Call) and attr_path(t.func) == ("isinstance",) \
                        and len(t.args) == 2 and attr_path(t.args[0]) == (xvar,):
                    d = dotted(t.args[1])
                    if d and d[-1] == want:
                        kind_test = True
                    else:
                        chk.ob(rule, key + ":kind", False, f.loc(t),
                               "%s.%s must resolve to a %s; the loader checks isinstance(..., %s)"
                               % (m, fname, want, d[-1] if d else "?"), 3)
                elif want is None and isinstance(t, ast.Name) and t.id == xvar:
                    kind_test = True
                elif want is None and isinstance(t, ast.Compare) and len(t.ops) == 1 and \
                        isinstance(t.ops[0], (ast.Is, ast.IsNot)) and attr_path(t.left) == (xvar,):
                    kind_test = isinstance(t.ops[0], ast.IsNot)
                    if not kind_test:
                        for b in cfg.g.successors(n):
                            bi = cfg.info[b]
                            if bi.kind == "branch":
                                (bad_br if bi.value else good).add(b)
                        test_nodes.add(n)
                        continue
                if kind_test:
                    test_nodes.add(n)
                    for b in cfg.g.successors(n):
                        bi = cfg.info[b]
                        if bi.kind == "branch":
                            (good if bi.value else bad_br).add(b)
            uses = cfg.nodes_where(lambda n: isinstance(n, ast.Name) and n.id == xvar
                                   and isinstance(n.ctx, ast.Load)) - test_nodes
            uses = {u for u in uses if not isinstance(cfg.info[u].ast, ast.Raise)}
            unchecked = [u for u in uses if cfg.path_avoiding(cfg.entry, u, good) is not None]
            chk.ob(rule, key + ":checked", bool(good) and not unchecked, f.loc(lk),
                   "the node resolved for %s.%s is used on a path that did not establish it is a %s"
                   % (m, fname, want or "node (not None)"), 3)
            rej = bool(bad_br) and all(_raises(cfg, b, ("DeserializationError",)) for b in bad_br)
            chk.ob(rule, key + ":rejects", rej, f.loc(lk),
                   "a missing or ill-typed node for %s.%s must be rejected with DeserializationError "
                   "(the failing outcome of the check must raise it on every path)" % (m, fname), 3)
    return n_sites


def _from_protobuf_by_summary(chk: Check, rule: str, f: FuncInfo) -> bool:
    """case split over the atoms of Node._from_protobuf (E11): on every path — however the
    guards are spelt — the cached node is returned exactly when it is an instance of cls, a
    cached node of another class raises DeserializationError, and the message is decoded only
    when nothing is cached (or there is no IR).  False: outside the fragment, the CFG rules run."""
    from ..summaries import Outside, Summary
    try:
        sm = Summary(f.node)
    except Outside:
        return False
    looks = [n for n in walk_no_nested(f.node) if isinstance(n, ast.Call)
             and isinstance(n.func, ast.Attribute) and n.func.attr == "get_by_uuid"]
    chk.ob(rule, "Node._from_protobuf:looks-up", len(looks) == 1, f.loc(),
           "Node._from_protobuf must look the UUID up in the loading IR first", 1)
    if len(looks) != 1:
        return True
    lk = unparse(looks[0])
    # the lookup argument may itself have been substituted; compare by the callee text
    lk_head = unparse(looks[0].func) + "("

    def is_lookup(txt: str) -> bool:
        return txt.startswith(lk_head)

    def has_decode(e: Optional[ast.AST]) -> bool:
        return e is not None and any(isinstance(x, ast.Call) and attr_path(x.func) == ("cls", "_decode_protobuf")
                                     for x in ast.walk(e))
    kind_checked = wrong_rejected = decode_on_miss = True
    saw_inst = False
    why = ""
    for p in sm.paths:
        inst = none = noir = None
        for k, v in p.facts.items():
            if k[0] == "truthy" and k[1].startswith("isinstance(") and is_lookup(k[1][len("isinstance("):]) \
                    and k[1].rstrip(")").endswith(", cls"):
                inst = v
                saw_inst = True
            elif k[0] == "Is" and "None" in k[1:] and any(is_lookup(x) for x in k[1:]):
                none = v
            elif k[0] == "Is" and set(k[1:]) == {"None", "ir"}:
                noir = v
            elif k[0] == "truthy" and is_lookup(k[1]):
                none = not v          # truthiness of a node: R03.3 keeps nodes truthy
        decoded = has_decode(p.value) or any(has_decode(st) for st in p.effects) or \
            any(has_decode(v_) for v_ in p.env.values())
        returns_cached = p.kind == "return" and p.value is not None and is_lookup(unparse(p.value))
        miss = bool(noir) or bool(none)
        if p.kind == "raise":
            if not ("DeserializationError" in unparse(p.value) if p.value is not None else False):
                continue
            if inst or miss:
                wrong_rejected = False
                why = "raises although the cached node fits or nothing is cached"
            continue
        if inst:
            if not returns_cached or has_decode(p.value):
                kind_checked = False
                why = "with a cached node of the right class it returns %s" % (unparse(p.value)[:40] if p.value is not None else None)
        elif miss:
            if not (has_decode(p.value) or (p.value is not None and decoded)):
                decode_on_miss = False
                why = "nothing cached, yet the message is not decoded"
        else:
            # something of another class is cached (or no test told us otherwise): must not return
            if inst is False and none is False:
                wrong_rejected = False
                why = "a cached node of another class is %s" % ("returned" if returns_cached else "silently re-decoded")
            elif returns_cached:
                kind_checked = False
                why = "the cached node is returned without an isinstance(cached, cls) test"
            elif decoded and none is None and noir is None:
                decode_on_miss = False
                why = "the message is decoded without asking whether a node is cached"
        if decoded and inst:
            decode_on_miss = False
            why = "the message is decoded although a node of the right class is cached"
    chk.ob(rule, "Node._from_protobuf:kind-check", kind_checked and saw_inst, f.loc(),
           "a cached node may be reused only if isinstance(cached, cls) (%s)" % why, 2)
    chk.ob(rule, "Node._from_protobuf:wrong-class-rejected", wrong_rejected, f.loc(),
           "a cached node of another class under the same UUID must raise DeserializationError, "
           "not be returned or silently re-decoded (%s)" % why, 3)
    chk.ob(rule, "Node._from_protobuf:decode-only-on-miss", decode_on_miss, f.loc(),
           "the message must be decoded only when no node of that UUID is attached, and a cached "
           "node returned only on the isinstance outcome (%s)" % why, 3)
    return True


def from_protobuf_cache(chk: Check, rule: str) -> None:
    """Node._from_protobuf: reuse iff isinstance(cached, cls); other class raises; miss decodes"""
    node = chk.repo.cls("Node")
    f = node.methods.get("_from_protobuf")
    if f is None:
        raise AnalysisError("anchor vanished: Node._from_protobuf")
    chk.saw(f)
    if _from_protobuf_by_summary(chk, rule, f):
        return
    cfg = CFG(f.node)
    al = local_aliases(f.node)
    look = [n for n in walk_no_nested(f.node) if isinstance(n, ast.Call)
            and isinstance(n.func, ast.Attribute) and n.func.attr == "get_by_uuid"]
    cvar = None
    if len(look) == 1:
        st = _stmt_of(look[0])
        if isinstance(st, ast.Assign) and isinstance(st.targets[0], ast.Name):
            cvar = st.targets[0].id
    chk.ob(rule, "Node._from_protobuf:looks-up", cvar is not None, f.loc(),
           "Node._from_protobuf must look the UUID up in the loading IR first", 1)
    if cvar is None:
        return
    inst_true: Set[int] = set()
    inst_false: Set[int] = set()
    for n, i in cfg.info.items():
        if i.kind == "test" and isinstance(i.ast, ast.Call) and attr_path(i.ast.func) == ("isinstance",) \
                and len(i.ast.args) == 2 and attr_path(i.ast.args[0]) == (cvar,) \
                and attr_path(i.ast.args[1]) == ("cls",):
            for b in cfg.g.successors(n):
                bi = cfg.info[b]
                if bi.kind == "branch":
                    (inst_true if bi.value else inst_false).add(b)
    chk.ob(rule, "Node._from_protobuf:kind-check", bool(inst_true), f.loc(),
           "a cached node may be reused only if isinstance(cached, cls)", 2)
    # on the not-an-instance outcome, a non-None cached node must raise DeserializationError
    other: Set[int] = set()
    for n, i in cfg.info.items():
        if i.kind == "test" and isinstance(i.ast, ast.Compare) and len(i.ast.ops) == 1 and \
                isinstance(i.ast.ops[0], (ast.Is, ast.IsNot)) and attr_path(i.ast.left) == (cvar,):
            for b in cfg.g.successors(n):
                bi = cfg.info[b]
                if bi.kind == "branch" and bi.value == isinstance(i.ast.ops[0], ast.IsNot):
                    other.add(b)
    ok = bool(other) and all(_raises(cfg, b, ("DeserializationError",)) for b in other) and \
        all(any(o in cfg.reachable(b) for o in other) or _raises(cfg, b, ("DeserializationError",))
            for b in inst_false)
    chk.ob(rule, "Node._from_protobuf:wrong-class-rejected", ok, f.loc(),
           "a cached node of another class under the same UUID must raise DeserializationError, "
           "not be returned or silently re-decoded", 3)
    dec = [n for n in walk_no_nested(f.node) if isinstance(n, ast.Call)
           and attr_path(n.func) == ("cls", "_decode_protobuf")]
    rets = [r for r in walk_no_nested(f.node) if isinstance(r, ast.Return) and r.value is not None]
    rv = rets[0].value.id if len(rets) == 1 and isinstance(rets[0].value, ast.Name) else None
    ok = len(dec) == 1 and rv is not None
    if ok:
        dn = cfg.node_of(dec[0])
        miss: Set[int] = set()
        for n, i in cfg.info.items():
            if i.kind == "test" and isinstance(i.ast, ast.Compare) and len(i.ast.ops) == 1 and \
                    isinstance(i.ast.ops[0], (ast.Is, ast.IsNot)) and attr_path(i.ast.left) == (rv,):
                for b in cfg.g.successors(n):
                    bi = cfg.info[b]
                    if bi.kind == "branch" and bi.value == isinstance(i.ast.ops[0], ast.Is):
                        miss.add(b)
        ok = bool(miss) and cfg.path_avoiding(cfg.entry, dn, miss) is None
        # the reuse branch binds the returned variable to the cached node
        reuse = cfg.nodes_where(lambda n: isinstance(n, ast.Assign) and attr_path(n.targets[0]) == (rv,)
                                and attr_path(n.value) == (cvar,))
        ok = ok and bool(reuse) and all(cfg.path_avoiding(cfg.entry, r_, inst_true) is None for r_ in reuse)
    chk.ob(rule, "Node._from_protobuf:decode-only-on-miss", ok, f.loc(),
           "the message must be decoded only when no node of that UUID is attached, and a cached "
           "node returned only on the isinstance outcome", 3)


# ---------------------------------------------------------------------------
# decode stages


def _produce_closure(repo: Repo, f: FuncInfo, seen: Optional[Set[str]] = None) -> Set[str]:
    """class names whose _from_protobuf is (transitively) invoked by f"""
    seen = seen if seen is not None else set()
    out: Set[str] = set()
    if f.qualname in seen:
        return out
    seen.add(f.qualname)
    nodes = list(walk_no_nested(f.node))
    for g in f.nested().values():
        nodes += list(walk_no_nested(g.node))
    for n in nodes:
        if isinstance(n, ast.Call) and isinstance(n.func, ast.Attribute) and n.func.attr == "_from_protobuf":
            d = dotted(n.func.value)
            c = repo.resolve_name(f.module, ".".join(d), f.cls) if d and d != ("cls",) else None
            if c is not None:
                out.add(c.name)
                dp = c.find_method("_decode_protobuf") or c.find_method("_from_protobuf")
                if dp is not None:
                    out |= _produce_closure(repo, dp, seen)
    return out


def _consume_closure(chk: Check, f: FuncInfo, pf: ProtoFlow, seen: Optional[Set[str]] = None) -> Set[str]:
    """kinds resolved by reference inside f's closure"""
    repo = chk.repo
    seen = seen if seen is not None else set()
    out: Set[str] = set()
    if f.qualname in seen:
        return out
    seen.add(f.qualname)
    fs = [f] + list(f.nested().values())
    names = {g.qualname for g in fs}
    for r in pf.reads:
        if r.f.qualname in names and (r.msg, r.field) in KIND and r.how == "load":
            par = getattr(r.node, "_parent", None)
            if isinstance(par, ast.keyword):
                out.add(KIND[(r.msg, r.field)] or "Node")
    for g in fs:
        for n in walk_no_nested(g.node):
            if isinstance(n, ast.Call) and isinstance(n.func, ast.Attribute):
                if n.func.attr == "_from_protobuf":
                    d = dotted(n.func.value)
                    c = repo.resolve_name(g.module, ".".join(d), g.cls) if d and d != ("cls",) else None
                    if c is not None:
                        dp = c.methods.get("_from_protobuf") or c.find_method("_decode_protobuf")
                        if dp is not None:
                            out |= _consume_closure(chk, dp, pf, seen)
                elif n.func.attr in ("_decode_symbolic_expressions", "_read_protobuf_aux_data"):
                    for c in repo.classes.values():
                        if n.func.attr in c.methods:
                            out |= _consume_closure(chk, c.methods[n.func.attr], pf, seen)
                    if n.func.attr == "_read_protobuf_aux_data":
                        out.add("Node")      # lazy AuxData may name any node
    return out


def stage_order(chk: Check, rule: str) -> int:
    """R09.2: in the staged decoders every consumer of kind K is preceded by
    every producer of a concrete subclass of K"""
    schema, pf = _facts(chk)
    repo = chk.repo
    n = 0
    for cname in ("Module", "IR"):
        c = repo.cls(cname)
        f = c.methods.get("_decode_protobuf")
        if f is None:
            raise AnalysisError("anchor vanished: %s._decode_protobuf" % cname)
        chk.saw(f)
        stages: List[Tuple[ast.stmt, Set[str], Set[str]]] = []
        for st in f.node.body:
            prod: Set[str] = set()
            cons: Set[str] = set()
            tmp = FuncInfo(ast.FunctionDef(name="_stage", args=f.node.args, body=[st], decorator_list=[],
                                           lineno=st.lineno, col_offset=0), f.module, f.cls)
            # closure over the statement
            for x in ast.walk(st):
                if isinstance(x, ast.Call) and isinstance(x.func, ast.Attribute):
                    if x.func.attr == "_from_protobuf":
                        d = dotted(x.func.value)
                        k = repo.resolve_name(f.module, ".".join(d), f.cls) if d else None
                        if k is not None:
                            prod.add(k.name)
                            dp = k.find_method("_decode_protobuf")
                            if dp is not None and k.methods.get("_from_protobuf") is None:
                                prod |= _produce_closure(repo, dp)
                                cons |= _consume_closure(chk, dp, pf)
                            own = k.methods.get("_from_protobuf")
                            if own is not None:
                                cons |= _consume_closure(chk, own, pf)
                    elif x.func.attr in ("_decode_symbolic_expressions", "_read_protobuf_aux_data"):
                        for k in repo.classes.values():
                            if x.func.attr in k.methods:
                                cons |= _consume_closure(chk, k.methods[x.func.attr], pf)
                        if x.func.attr == "_read_protobuf_aux_data":
                            cons.add("Node")
                elif isinstance(x, ast.Call) and isinstance(x.func, ast.Attribute) and False:
                    pass
            # direct reference resolutions in this statement
            for r in pf.reads:
                if r.f.qualname == f.qualname and (r.msg, r.field) in KIND and r.how == "load" \
                        and any(y is r.node for y in ast.walk(st)) and \
                        isinstance(getattr(r.node, "_parent", None), ast.keyword):
                    cons.add(KIND[(r.msg, r.field)] or "Node")
            if prod or cons:
                stages.append((st, prod, cons))
        chk.extra.setdefault("decode_stages", {})[cname] = [
            {"line": st.lineno, "produces": sorted(p), "consumes": sorted(cs)} for st, p, cs in stages]
        for i, (st, prod, cons) in enumerate(stages):
            for k in sorted(cons):
                kc = repo.cls_opt(k)
                late: List[str] = []
                for j, (st2, prod2, _) in enumerate(stages):
                    if j <= i:
                        continue
                    for pn in prod2:
                        pc = repo.cls_opt(pn)
                        if pc is None:
                            continue
                        if kc is not None and (pc is kc or pc.is_subclass_of(kc)):
                            late.append("%s (line %d)" % (pn, st2.lineno))
                # a stage may both produce and consume the kind it produces (symbols referring to blocks)
                n += 1
                chk.ob(rule, "%s._decode_protobuf:%s-before-use@stage%d" % (cname, k, i), not late, f.loc(st),
                       "%s._decode_protobuf resolves references to %s nodes at line %d, but %s are "
                       "decoded only afterwards: those references would dangle (DeserializationError "
                       "on valid files) or, for lazy AuxData, come back as plain UUIDs"
                       % (cname, k, st.lineno, ", ".join(late)), 3)
    return n


def lookup_bindings(chk: Check, rule: str) -> int:
    """every decoder that takes a ``get_by_uuid`` callable is handed the loading
    IR's bound method (or the caller's own get_by_uuid), never another callable"""
    repo = chk.repo
    n = 0
    for f in repo.all_functions():
        for c in walk_no_nested(f.node):
            if not (isinstance(c, ast.Call) and isinstance(c.func, ast.Attribute)):
                continue
            d = dotted(c.func.value)
            if not d:
                continue
            k = repo.resolve_name(f.module, ".".join(d), f.cls)
            if k is None:
                continue
            g = k.find_method(c.func.attr)
            if g is None or "get_by_uuid" not in g.param_names():
                continue
            ps = g.param_names()
            if (g.is_classmethod or g.self_name) and not g.is_staticmethod:
                ps = ps[1:]
            arg = None
            if "get_by_uuid" in ps and ps.index("get_by_uuid") < len(c.args):
                arg = c.args[ps.index("get_by_uuid")]
            for kw in c.keywords:
                if kw.arg == "get_by_uuid":
                    arg = kw.value
            if arg is None:
                continue
            n += 1
            chk.call_sites += 1
            p = attr_path(arg)
            ok = p is not None and (p == ("get_by_uuid",) or (len(p) == 2 and p[1] == "get_by_uuid"))
            chk.ob(rule, "%s:%s.%s(get_by_uuid)" % (f.qualname, k.name, c.func.attr), ok, f.loc(c),
                   "%s hands %s.%s the lookup %s instead of the loading IR's get_by_uuid: "
                   "references would not resolve to the attached nodes"
                   % (f.qualname, k.name, c.func.attr, unparse(arg)[:40]), 2)
    return n


def deferred_stage(chk: Check, rule: str) -> None:
    """symbolic expressions are decoded in a deferred stage (they refer to symbols); the module
    decoder must run that stage for every byte interval of every section, and the stage must
    store one expression per map entry and release the kept message"""
    repo = chk.repo
    mod = repo.cls("Module")
    f = mod.methods.get("_decode_protobuf")
    bi = repo.cls("ByteInterval")
    st = bi.methods.get("_decode_symbolic_expressions")
    if f is None or st is None:
        raise AnalysisError("anchor vanished: Module._decode_protobuf / ByteInterval._decode_symbolic_expressions")
    chk.saw(f)
    chk.saw(st)
    ok = False
    for lp in walk_no_nested(f.node):
        if isinstance(lp, ast.For) and isinstance(lp.target, ast.Name) and \
                (attr_path(lp.iter) or ("",))[-1] == "sections":
            for lp2 in ast.walk(lp):
                if isinstance(lp2, ast.For) and lp2 is not lp and isinstance(lp2.target, ast.Name) and \
                        attr_path(lp2.iter) == (lp.target.id, "byte_intervals"):
                    calls = [c for c in ast.walk(lp2) if isinstance(c, ast.Call)
                             and attr_path(c.func) == (lp2.target.id, "_decode_symbolic_expressions")]
                    filt = any(isinstance(x, (ast.If, ast.Continue, ast.Break)) for x in ast.walk(lp))
                    ok = ok or (bool(calls) and not filt)
        if isinstance(lp, ast.For) and isinstance(lp.target, ast.Name) and \
                (attr_path(lp.iter) or ("",))[-1] == "byte_intervals" and len(attr_path(lp.iter) or ()) == 2:
            calls = [c for c in ast.walk(lp) if isinstance(c, ast.Call)
                     and attr_path(c.func) == (lp.target.id, "_decode_symbolic_expressions")]
            ok = ok or (bool(calls) and not any(isinstance(x, (ast.If, ast.Continue, ast.Break)) for x in ast.walk(lp)))
    chk.ob(rule, "Module._decode_protobuf:runs-deferred-expression-stage", ok, f.loc(),
           "Module._decode_protobuf must call _decode_symbolic_expressions for every byte interval of "
           "every section (after the symbols): otherwise loaded intervals have no symbolic expressions", 3)
    # inside the stage: one store per map entry, keyed by the entry's key
    me = st.self_name
    stores = []
    for lp in walk_no_nested(st.node):
        if isinstance(lp, ast.For) and isinstance(lp.target, ast.Tuple) and len(lp.target.elts) == 2 \
                and "symbolic_expressions" in unparse(lp.iter) and "_proto_interval" in unparse(lp.iter):
            k = lp.target.elts[0].id if isinstance(lp.target.elts[0], ast.Name) else None
            c2 = CFG(st.node)
            hits = c2.nodes_where(lambda n: isinstance(n, ast.Assign) and isinstance(n.targets[0], ast.Subscript)
                                  and attr_path(n.targets[0].value) in ((me, "symbolic_expressions"),
                                                                        (me, "_symbolic_expressions"))
                                  and attr_path(n.targets[0].slice) == (k,))
            head = c2.by_ast[id(lp)]
            body_in = [s_ for s_ in c2.g.successors(head) if c2.info[s_].kind == "branch" and c2.info[s_].value]
            wit = c2.path_avoiding(body_in[0], head, hits) if body_in else [0]
            stores.append(wit is None and bool(hits))
    chk.ob(rule, "ByteInterval._decode_symbolic_expressions:stores-every-entry", bool(stores) and all(stores),
           st.loc(), "the deferred stage must store one expression under its offset for every entry of "
           "the message map, on every path of the loop", 3)


def uuid_parse_exact(chk: Check, rule: str, codec_side: bool = False) -> int:
    """an identifier read from a file or a table is the 16 bytes stored there: ``UUID(bytes=b)``
    and nothing else.  ``version=`` (or any other extra argument) rewrites bits of the value, so
    identifiers written by another producer no longer match the references to them"""
    n = 0
    for f in chk.repo.all_functions():
        # the AuxData codecs on one side, the loader and the model classes on the other
        if (f.module.name in ("serialization", "auxdata")) != codec_side:
            continue
        for c in walk_no_nested(f.node):
            if not (isinstance(c, ast.Call) and (dotted(c.func) or ("",))[-1] == "UUID"):
                continue
            kws = {k.arg for k in c.keywords}
            if "bytes" not in kws:
                continue
            n += 1
            chk.saw(f)
            extra = sorted(k for k in kws if k != "bytes") + (["positional"] if c.args else [])
            chk.ob(rule, "%s:UUID(bytes=)-only" % f.qualname, not extra, f.loc(c),
                   "%s builds an identifier with %s: only the stored 16 bytes may determine it (extra "
                   "arguments: %s)" % (f.qualname, unparse(c)[:60], ", ".join(str(e) for e in extra)), 1)
    return n


def rejections_mirror_api(chk: Check, rule: str, modules: Optional[Set[str]] = None) -> int:
    """What the API lets a client build can be saved, and what was saved loads: a decoder that
    turns a message away because of an *ordering* between numeric fields (an offset beyond some
    length, a size below some count) rejects states the API accepts unless the constructor or a
    setter of the package rejects the same relation.  Returns the number of raise sites seen."""
    from .c01 import _is_reader
    ORD = (ast.Lt, ast.LtE, ast.Gt, ast.GtE)

    def guarded_raises(f: FuncInfo) -> List[Tuple[ast.Raise, List[ast.Compare]]]:
        parents: Dict[int, ast.AST] = {}
        for n in ast.walk(f.node):
            for ch in ast.iter_child_nodes(n):
                parents[id(ch)] = n
        out = []
        for r in walk_no_nested(f.node):
            if not isinstance(r, ast.Raise):
                continue
            cmps: List[ast.Compare] = []
            cur: ast.AST = r
            while id(cur) in parents and cur is not f.node:
                par = parents[id(cur)]
                if isinstance(par, (ast.If, ast.While)):
                    cmps += [x for x in ast.walk(par.test) if isinstance(x, ast.Compare)
                             and any(isinstance(o, ORD) for o in x.ops)]
                elif isinstance(par, ast.Assert):
                    pass
                cur = par
            out.append((r, cmps))
        return out

    def words(c: ast.Compare) -> Set[str]:
        w = {x.attr.lstrip("_") for x in ast.walk(c) if isinstance(x, ast.Attribute)} | {
            x.id.lstrip("_") for x in ast.walk(c) if isinstance(x, ast.Name)}
        # the stored bytes under their three names
        if w & {"contents", "initialized_size"}:
            w |= {"contents", "initialized_size"}
        return w - {"len", "self", "result", "int", "max", "min"}
    api: List[Set[str]] = []
    for f in chk.repo.all_functions():
        if _is_reader(f):
            continue
        if f.name == "__init__" or "setter" in " ".join(unparse(d) for d in f.node.decorator_list):
            for _r, cmps in guarded_raises(f):
                for c in cmps:
                    api.append(words(c))
    n = 0
    for f in chk.repo.all_functions():
        if not _is_reader(f):
            continue
        if modules is not None and f.module.name.rsplit(".", 1)[-1] not in modules:
            continue
        for r, cmps in guarded_raises(f):
            n += 1
            for c in cmps:
                w = words(c)
                mirrored = [a for a in api if len(a & w) >= 2]
                chk.ob(rule, "%s:rejects(%s)" % (f.qualname, unparse(c)[:40]), False, f.loc(r),
                       "%s turns a message away when %s: no constructor or setter of the package rejects that "
                       "relation, so an object the API accepts (and saves) cannot be loaded back"
                       % (f.qualname, unparse(c)[:60]), 2, undecided=bool(mirrored))
    return n
