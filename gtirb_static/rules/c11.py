"""C11 — The CFG is a set of edges with consistent adjacency views."""
from __future__ import annotations

import ast
from typing import List, Optional, Set, Tuple

from ..abc_model import AbcModel
from ..cfg import CFG as Flow
from ..model import AnalysisError, attr_path, dotted, expand_path, local_aliases, unparse, walk_no_nested
from ..report import Check

RULES = {
    "R11.1": "who-may-write the multigraph: _nxg is created once per CFG and mutated only in "
             "add / discard / clear",
    "R11.2": "guarded add (only if the same edge is absent, label stored), keyed discard (only "
             "the key found for exactly this (source, target, label)); membership, length and "
             "iteration derive from the same edge view; labels compared with ==",
    "R11.3": "mixin routing: every other mutator is an abc mixin or routes through add/discard/clear",
    "R11.4": "adjacency delegation: out_edges/in_edges use the matching multigraph view, yield "
             "Edge(s, t, l) in that order; block incoming/outgoing properties delegate to them",
    "R11.6": "multigraph keys are never user values: a key handed to networkx (has_edge / "
             "remove_edge / add_edge key=) comes from the graph itself, never from edge.label "
             "(None is a wildcard key in networkx)",
    "R11.5": "identity of nodes, value equality of labels: Edge/EdgeLabel are NamedTuples "
             "defining neither __eq__ nor __hash__; CFG nodes neither",
}
NX_MUTATORS = {"add_edge", "remove_edge", "clear", "add_node", "remove_node", "add_edges_from",
               "remove_edges_from", "add_nodes_from", "remove_nodes_from", "update", "clear_edges"}


def _orderable_key(keyfn: Optional[ast.AST]) -> Tuple[Optional[bool], str]:
    """is every component of a sort key of an orderable kind?  True / False (names a component
    that is not) / None (cannot tell)"""
    if keyfn is None:
        return False, "sorted without a key compares Edge tuples, i.e. nodes"
    if not isinstance(keyfn, ast.Lambda):
        return None, "sort key %s is not a lambda" % unparse(keyfn)[:40]
    body = keyfn.body
    comps = list(body.elts) if isinstance(body, ast.Tuple) else [body]
    for c in comps:
        p = attr_path(c)
        if p and p[-1] in ("uuid", "address", "offset", "size", "value", "name", "int", "bytes", "hex"):
            continue
        if isinstance(c, ast.Constant):
            continue
        if any(isinstance(x, ast.Attribute) and x.attr == "label" for x in ast.walk(c)) and not any(
                isinstance(x, ast.Attribute) and x.attr in ("value", "conditional", "direct") for x in ast.walk(c)):
            return False, "the sort key orders by the edge label itself (%s): labels hold an Enum, and a " \
                          "missing label is None — comparing them raises TypeError" % unparse(c)[:40]
        return None, "sort key component %s" % unparse(c)[:40]
    return True, ""


def run(chk: Check) -> None:
    chk.explanation = (
        "Set semantics over all operation sequences reduces, in this implementation, to: one "
        "multigraph edge per element, created only if absent, removed by key, nodes compared by "
        "identity, and the abc mixins routing through those primitives.  These local guards are "
        "decided; networkx's multigraph semantics and the observable state after mixed sequences "
        "are not.")
    for k, v in RULES.items():
        chk.rule(k, v)
    repo = chk.repo
    cfgc = repo.cls("CFG")
    abc = AbcModel()
    from .c16 import _delegation_table
    sub = chk.sub()
    _delegation_table(sub)
    chk.adopt(sub, lambda o: o.construct.startswith("CFG.") and "operator-from-mixin" in o.construct, "R11.3")

    # the truth value of a set is "it has members": collections.abc gives the CFG no __bool__, so
    # len() decides.  One written by hand has to say the same as len() - the vertices of the
    # backing graph (which stay behind when their last edge goes) are not members
    fb = cfgc.methods.get("__bool__")
    if fb is not None:
        chk.saw(fb)
        body_ = [s_ for s_ in fb.node.body if not (isinstance(s_, ast.Expr) and isinstance(s_.value, ast.Constant))]
        txt_ = unparse(body_[0].value) if len(body_) == 1 and isinstance(body_[0], ast.Return) and body_[0].value is not None else ""
        me_ = fb.self_name or "self"
        same = txt_ in ("len(%s) != 0" % me_, "len(%s) > 0" % me_, "bool(len(%s))" % me_, "0 < len(%s)" % me_,
                        "%s._nxg.number_of_edges() != 0" % me_, "%s._nxg.number_of_edges() > 0" % me_,
                        "bool(%s._nxg.number_of_edges())" % me_)
        vertexy = any(isinstance(x, ast.Attribute) and x.attr in ("number_of_nodes", "nodes", "order", "adj", "_adj", "_node")
                      for x in ast.walk(fb.node)) or "len(%s._nxg)" % me_ in unparse(fb.node) or \
            "bool(%s._nxg)" % me_ in unparse(fb.node) or txt_ == "%s._nxg" % me_
        chk.ob("R11.3", "CFG.__bool__:agrees-with-len", same, fb.loc(),
               "CFG defines __bool__ (%s): it must be true exactly when len() is not 0%s"
               % (txt_[:50] or "several statements", "; vertices of the backing graph outlive their edges" if vertexy else ""),
               2, undecided=not same and not vertexy)

    # R11.1 -----------------------------------------------------------------
    n_uses = 0
    for f in repo.all_functions():
        for n in walk_no_nested(f.node):
            if not (isinstance(n, ast.Attribute) and n.attr == "_nxg"):
                continue
            n_uses += 1
            chk.saw(f)
            inside = f.cls is cfgc and attr_path(n.value) in ((f.self_name,), ("other",))
            par = getattr(n, "_parent", None)
            kind = "read"
            ok = inside
            if isinstance(n.ctx, ast.Store):
                kind = "assign"
                stmt = par
                val = getattr(stmt, "value", None)
                ok = inside and f.name == "__init__" and isinstance(val, ast.Call) and \
                    (dotted(val.func) or ("",))[-1] == "MultiDiGraph" and not val.args
            elif isinstance(par, ast.Attribute) and par.attr in NX_MUTATORS and \
                    isinstance(getattr(par, "_parent", None), ast.Call):
                kind = "mutate:" + par.attr
                allowed = {"add": {"add_edge"}, "discard": {"remove_edge"}, "clear": {"clear"}}
                ok = inside and par.attr in allowed.get(f.name, set())
            elif isinstance(par, ast.Subscript) and isinstance(par.ctx, (ast.Store, ast.Del)):
                kind = "item-assign"
                ok = False
            elif isinstance(par, ast.Return):
                kind = "return"
                ok = inside and f.name == "nx"     # documented escape hatch of the public API
            chk.ob("R11.1", "%s:%s(_nxg)" % (f.qualname, kind), ok, f.loc(n),
                   "%s uses the edge multigraph as '%s': only CFG.__init__ creates it and only "
                   "add/discard/clear may mutate it" % (f.qualname, kind), 1)
    chk.floor("R11.1", "uses of _nxg", n_uses, 8)
    for f in list(cfgc.methods.values()) + [x for p in cfgc.props.values() for x in (p.getter, p.setter) if x]:
        for n in walk_no_nested(f.node):
            if isinstance(n, (ast.Assign, ast.AugAssign, ast.AnnAssign)):
                for t in (n.targets if isinstance(n, ast.Assign) else [n.target]):
                    base = t
                    while isinstance(base, ast.Subscript):
                        base = base.value
                    p = attr_path(base)
                    if p and len(p) == 2 and p[0] == f.self_name and p[1] != "_nxg":
                        chk.ob("R11.1", "%s:second-state(%s)" % (f.qualname, p[1]), False, f.loc(n),
                               "%s keeps state besides the edge multigraph (self.%s): membership can "
                               "disagree with the graph after clear()/mixins that do not know about it"
                               % (f.qualname, p[1]), 1)
    ir_init = repo.cls("IR").methods["__init__"]
    copies = [n for n in walk_no_nested(ir_init.node) if isinstance(n, ast.Assign)
              and attr_path(n.targets[0]) == (ir_init.self_name, "cfg")]
    ok = len(copies) == 1 and isinstance(copies[0].value, ast.Call) and \
        (dotted(copies[0].value.func) or ("",))[-1] == "CFG"
    chk.ob("R11.1", "IR.__init__:cfg-is-copied", ok, ir_init.loc(),
           "IR.__init__ must build its own CFG from the edges it is given", 1)

    # R11.2 -----------------------------------------------------------------
    add = cfgc.methods.get("add")
    dis = cfgc.methods.get("discard")
    ek = cfgc.methods.get("_edge_key")
    con = cfgc.methods.get("__contains__")
    _keys_from_graph(chk, cfgc)
    if ek is None and any(not o.ok for o in chk.obs if o.rule == "R11.6"):
        return      # the key discipline was replaced wholesale; R11.6 reports how
    for nm, f in (("add", add), ("discard", dis), ("_edge_key", ek), ("__contains__", con)):
        if f is None:
            raise AnalysisError("anchor vanished: CFG.%s" % nm)
        chk.saw(f)
    e = add.param_names()[1]
    fl = Flow(add.node)
    al = local_aliases(add.node)
    adds = [c for c in walk_no_nested(add.node) if isinstance(c, ast.Call)
            and isinstance(c.func, ast.Attribute) and c.func.attr == "add_edge"]
    ok = len(adds) == 1
    if ok:
        c = adds[0]
        # absent-branch: ``edge not in self`` true / ``self._edge_key(edge) is None`` true
        absent: Set[int] = set()
        for n, i in fl.info.items():
            if i.kind != "test" or not isinstance(i.ast, ast.Compare) or len(i.ast.ops) != 1:
                continue
            t = i.ast
            op = t.ops[0]
            is_member_test = isinstance(op, (ast.In, ast.NotIn)) and attr_path(t.left) == (e,) and \
                attr_path(t.comparators[0]) == (add.self_name,)
            lhs = t.left
            if isinstance(lhs, ast.Name) and lhs.id in al:
                lhs = al[lhs.id]
            is_key_test = isinstance(op, (ast.Is, ast.IsNot)) and isinstance(lhs, ast.Call) and \
                attr_path(lhs.func) == (add.self_name, "_edge_key") and \
                len(lhs.args) == 1 and attr_path(lhs.args[0]) == (e,)
            for b in fl.g.successors(n):
                bi = fl.info[b]
                if bi.kind != "branch":
                    continue
                if is_member_test and bi.value == isinstance(op, ast.NotIn):
                    absent.add(b)
                if is_key_test and bi.value == isinstance(op, ast.Is):
                    absent.add(b)
        cn = fl.node_of(c)
        guarded = bool(absent) and fl.path_avoiding(fl.entry, cn, absent) is None
        chk.ob("R11.2", "CFG.add:guarded", guarded, add.loc(c),
               "CFG.add creates a multigraph edge without first establishing that the same "
               "(source, target, label) edge is absent: adding a present edge would duplicate it", 3)
        args_ok = len(c.args) == 2 and attr_path(c.args[0]) == (e, "source") and \
            attr_path(c.args[1]) == (e, "target") and \
            any(k.arg == "label" and attr_path(k.value) == (e, "label") for k in c.keywords)
        chk.ob("R11.2", "CFG.add:stores-edge", args_ok, add.loc(c),
               "CFG.add must store add_edge(edge.source, edge.target, label=edge.label), got %s"
               % unparse(c), 3)
    else:
        chk.ob("R11.2", "CFG.add:guarded", False, add.loc(), "expected exactly one add_edge call", 1)
    # discard
    e = dis.param_names()[1]
    fl = Flow(dis.node)
    al = local_aliases(dis.node)
    rms = [c for c in walk_no_nested(dis.node) if isinstance(c, ast.Call)
           and isinstance(c.func, ast.Attribute) and c.func.attr == "remove_edge"]
    if len(rms) == 1:
        c = rms[0]
        keyarg = None
        for k in c.keywords:
            if k.arg == "key":
                keyarg = k.value
        if keyarg is None and len(c.args) >= 3:
            keyarg = c.args[2]
        kv = keyarg.id if isinstance(keyarg, ast.Name) else None
        from_key = kv is not None and kv in al and isinstance(al[kv], ast.Call) and \
            attr_path(al[kv].func) == (dis.self_name, "_edge_key") and attr_path(al[kv].args[0]) == (e,)
        chk.ob("R11.2", "CFG.discard:keyed", bool(from_key) and len(c.args) >= 2
               and attr_path(c.args[0]) == (e, "source") and attr_path(c.args[1]) == (e, "target"),
               dis.loc(c),
               "CFG.discard must remove exactly the multigraph key _edge_key found for this edge "
               "(remove_edge(edge.source, edge.target, key=<that key>)); without the key an "
               "arbitrary parallel edge is removed: %s" % unparse(c), 3)
        present: Set[int] = set()
        for n, i in fl.info.items():
            if i.kind == "test" and isinstance(i.ast, ast.Compare) and len(i.ast.ops) == 1 and \
                    isinstance(i.ast.ops[0], (ast.Is, ast.IsNot)) and attr_path(i.ast.left) == (kv,):
                for b in fl.g.successors(n):
                    bi = fl.info[b]
                    if bi.kind == "branch" and bi.value == isinstance(i.ast.ops[0], ast.IsNot):
                        present.add(b)
        cn = fl.node_of(c)
        chk.ob("R11.2", "CFG.discard:guarded", bool(present) and fl.path_avoiding(fl.entry, cn, present) is None,
               dis.loc(c), "CFG.discard must do nothing when the edge is absent (key is None)", 2)
    else:
        chk.ob("R11.2", "CFG.discard:keyed", False, dis.loc(), "expected exactly one remove_edge call", 1)
    # _edge_key: label compared with == on the stored 'label' datum between (source, target)
    e = ek.param_names()[1]
    cmps = [n for n in walk_no_nested(ek.node) if isinstance(n, ast.Compare)
            and any(attr_path(x) == (e, "label") for x in [n.left] + list(n.comparators))]
    ok = len(cmps) == 1 and len(cmps[0].ops) == 1 and isinstance(cmps[0].ops[0], ast.Eq) and \
        any(isinstance(x, ast.Subscript) and isinstance(x.slice, ast.Constant) and x.slice.value == "label"
            for x in [cmps[0].left] + list(cmps[0].comparators))
    chk.ob("R11.2", "CFG._edge_key:label-equality", ok, ek.loc(),
           "_edge_key must compare the stored 'label' datum with edge.label by == (value equality; "
           "None equals only None), got %s" % (unparse(cmps[0]) if cmps else "no comparison"), 2)
    src = [n for n in walk_no_nested(ek.node) if isinstance(n, ast.Attribute) and attr_path(n) == (e, "source")]
    tgt = [n for n in walk_no_nested(ek.node) if isinstance(n, ast.Attribute) and attr_path(n) == (e, "target")]
    sub_src = any(isinstance(n, ast.Subscript) and attr_path(n.value) == (ek.self_name, "_nxg")
                  and attr_path(n.slice) == (e, "source") for n in walk_no_nested(ek.node))
    chk.ob("R11.2", "CFG._edge_key:between-source-and-target", bool(src) and bool(tgt) and sub_src, ek.loc(),
           "_edge_key must search the parallel edges from edge.source to edge.target "
           "(self._nxg[edge.source][edge.target])", 2)
    mem = [n for n in walk_no_nested(ek.node) if isinstance(n, ast.Compare) and len(n.ops) == 1
           and isinstance(n.ops[0], (ast.In, ast.NotIn))]
    fl_mem = Flow(ek.node)
    key_rets = [r for r in walk_no_nested(ek.node) if isinstance(r, ast.Return) and r.value is not None
                and not (isinstance(r.value, ast.Constant) and r.value.value is None)]
    positive = bool(mem) and bool(key_rets)
    for r in key_rets:
        facts = fl_mem.facts_at(fl_mem.node_of(r))
        for m in mem:
            held = [v for (t, v) in facts if t is m]
            # the key is returned only where the membership test came out as "is a member"
            if not held or any(v != isinstance(m.ops[0], ast.In) for v in held):
                positive = False
    chk.ob("R11.2", "CFG._edge_key:membership-tests-positive", positive, ek.loc(),
        "_edge_key must search only when the source is in the graph, the target among its successors "
        "and the edge datum has a label: a key is returned on a path where one of %s did not hold"
        % [unparse(n) for n in mem], 2)
    fl_ek = Flow(ek.node)
    if cmps:
        eqtrue = fl_ek.branch(cmps[0], True) if id(cmps[0]) in fl_ek.by_ast else None
        keyrets = [r for r in walk_no_nested(ek.node) if isinstance(r, ast.Return) and r.value is not None
                   and not (isinstance(r.value, ast.Constant) and r.value.value is None)]
        okk = len(keyrets) == 1
        if okk:
            # the key returned is the multigraph key of the parallel edge whose label matched
            rn = fl_ek.node_of(keyrets[0])
            label_tests = {n for n, i in fl_ek.info.items() if i.kind == "test" and i.ast is cmps[0]}
            true_br = {b for t in label_tests for b in fl_ek.g.successors(t)
                       if fl_ek.info[b].kind == "branch" and fl_ek.info[b].value}
            okk = bool(true_br) and fl_ek.path_avoiding(fl_ek.entry, rn, true_br) is None
        chk.ob("R11.2", "CFG._edge_key:returns-key-of-matching-edge", okk, ek.loc(),
               "_edge_key must return the key exactly on the path where the stored label equals edge.label", 2)
    rets = [r for r in walk_no_nested(ek.node) if isinstance(r, ast.Return)]
    none_default = any(r.value is None or (isinstance(r.value, ast.Constant) and r.value.value is None)
                       for r in rets)
    chk.ob("R11.2", "CFG._edge_key:none-when-absent", none_default, ek.loc(),
           "_edge_key must return None when no matching edge exists", 1)
    # __contains__
    p = con.param_names()[1]
    ok = False
    from ..summaries import Outside, Summary
    try:
        sm = Summary(con.node)
        dnf = sm.truthy_dnf()
        if len(dnf) == 1 and len(dnf[0]) == 2:
            has_inst = has_key = False
            for a_, op, b_ in sm.constraints(dnf[0]):
                if op == "truthy" and isinstance(a_, ast.Call) and attr_path(a_.func) == ("isinstance",) \
                        and len(a_.args) == 2 and attr_path(a_.args[0]) == (p,) \
                        and (dotted(a_.args[1]) or ("",))[-1] == "Edge":
                    has_inst = True
                if op == "IsNot":
                    sides = [a_, b_]
                    call = [x for x in sides if isinstance(x, ast.Call)]
                    none = [x for x in sides if isinstance(x, ast.Constant) and x.value is None]
                    if call and none and attr_path(call[0].func) == (con.self_name, "_edge_key") \
                            and len(call[0].args) == 1 and attr_path(call[0].args[0]) == (p,):
                        has_key = True
            ok = has_inst and has_key
    except Outside:
        ok = False
    chk.ob("R11.2", "CFG.__contains__", ok, con.loc(),
           "membership must be 'isinstance(x, Edge) and self._edge_key(x) is not None'", 2)
    # __len__ / __iter__ from the same edge view
    ln = cfgc.methods.get("__len__")
    it = cfgc.methods.get("__iter__")
    for nm, f in (("__len__", ln), ("__iter__", it)):
        if f is None:
            chk.ob("R11.2", "CFG.%s" % nm, False, cfgc.loc(), "vanished")
            continue
        chk.saw(f)
        views = [c for c in walk_no_nested(f.node) if isinstance(c, ast.Call)
                 and isinstance(c.func, ast.Attribute) and attr_path(c.func.value) == (f.self_name, "_nxg")]
        ok = len(views) == 1 and views[0].func.attr in ("edges", "number_of_edges")
        if nm == "__iter__" and ok:
            ok = views[0].func.attr == "edges" and any(
                k.arg == "data" and isinstance(k.value, ast.Constant) and k.value.value == "label"
                for k in views[0].keywords)
            ok = ok and _yields_edge_in_order(f)
        chk.ob("R11.2", "CFG.%s:edge-view" % nm, ok, f.loc(),
               "CFG.%s must derive from the multigraph's edge view (%s)" % (
                   nm, unparse(views[0]) if views else "none"), 2)

    # R11.3 -----------------------------------------------------------------
    api = set(abc.api("abc.MutableSet")) | {"update", "clear", "remove", "pop"}
    for nm in sorted(api):
        prov = cfgc.find_method(nm)
        if prov is None:
            m = abc.resolve("abc.MutableSet", nm)
            if m is not None and not nm.startswith("_h") and nm not in ("__subclasshook__",):
                chk.ob("R11.3", "CFG.%s:mixin" % nm, True, cfgc.loc(),
                       "abc mixin routes through %s" % sorted(m.primitives()), 1)
            continue
    for nm in abc.abstract_names("abc.MutableSet"):
        chk.ob("R11.3", "CFG:abstract(%s)" % nm, cfgc.find_method(nm) is not None, cfgc.loc(),
               "CFG does not implement %s" % nm, 1)
    init = cfgc.methods.get("__init__")
    if init is not None:
        pos = init.param_names()[1:]
        req = len(pos) - len(init.node.args.defaults)
        chk.ob("R11.3", "CFG.__init__:from-iterable", req <= 1 and len(pos) >= 1, init.loc(),
               "Set._from_iterable (= cls(it)) needs CFG(<one iterable of edges>) to work", 2)
    upd = cfgc.methods.get("update")
    if upd is not None:
        chk.saw(upd)
        p = upd.param_names()[1]
        ok = any(isinstance(n, ast.For) and attr_path(n.iter) == (p,) and any(
            isinstance(c, ast.Call) and attr_path(c.func) == (upd.self_name, "add") for c in ast.walk(n))
            for n in walk_no_nested(upd.node))
        chk.ob("R11.3", "CFG.update:routes-through-add", ok, upd.loc(),
               "CFG.update must add each edge through self.add", 2)

    # R11.4 -----------------------------------------------------------------
    for nm, view in (("out_edges", "out_edges"), ("in_edges", "in_edges")):
        f = cfgc.methods.get(nm)
        if f is None:
            chk.ob("R11.4", "CFG.%s" % nm, False, cfgc.loc(), "vanished")
            continue
        chk.saw(f)
        p = f.param_names()[1]
        views = [c for c in walk_no_nested(f.node) if isinstance(c, ast.Call)
                 and isinstance(c.func, ast.Attribute) and attr_path(c.func.value) == (f.self_name, "_nxg")]
        ok = len(views) == 1 and views[0].func.attr == view and views[0].args and \
            attr_path(views[0].args[0]) == (p,) and any(
                k.arg == "data" and isinstance(k.value, ast.Constant) and k.value.value == "label"
                for k in views[0].keywords)
        chk.ob("R11.4", "CFG.%s:view" % nm, ok, f.loc(),
               "CFG.%s must iterate self._nxg.%s(node, data='label'), got %s"
               % (nm, view, unparse(views[0]) if views else "none"), 3)
        chk.ob("R11.4", "CFG.%s:edge-order" % nm, _yields_edge_in_order(f), f.loc(),
               "CFG.%s must yield Edge(source, target, label) in the order the view produces them" % nm, 2)
        # what dominates the use of the view: "node in self._nxg" came out true (nested if, or a
        # ``not in`` guard with an early exit)
        guard = False
        if views:
            cfg_v = Flow(f.node)
            try:
                for t_, v_ in cfg_v.facts_at(cfg_v.node_of(views[0])):
                    if isinstance(t_, ast.Compare) and len(t_.ops) == 1 and isinstance(t_.ops[0], (ast.In, ast.NotIn)) \
                            and attr_path(t_.left) == (p,) and attr_path(t_.comparators[0]) == (f.self_name, "_nxg") \
                            and v_ == isinstance(t_.ops[0], ast.In):
                        guard = True
            except AnalysisError:
                guard = False
        chk.ob("R11.4", "CFG.%s:unknown-node" % nm, guard, f.loc(),
               "CFG.%s must yield nothing for a node without edges (networkx raises otherwise)" % nm, 1)
    n_sib = 0
    for cname in ("CodeBlock", "ProxyBlock"):
        c = repo.cls(cname)
        for pname, meth in (("incoming_edges", "in_edges"), ("outgoing_edges", "out_edges")):
            pr = c.props.get(pname)
            key = "%s.%s" % (cname, pname)
            if pr is None or pr.getter is None:
                chk.ob("R11.4", key, False, c.loc(), "vanished")
                continue
            n_sib += 1
            g = pr.getter
            chk.saw(g)
            al = local_aliases(g.node)
            calls = [x for x in walk_no_nested(g.node) if isinstance(x, ast.Call)
                     and isinstance(x.func, ast.Attribute) and x.func.attr in ("in_edges", "out_edges")]
            ok = len(calls) == 1 and calls[0].func.attr == meth and \
                expand_path(calls[0].func.value, al) == (g.self_name, "ir", "cfg") and \
                len(calls[0].args) == 1 and attr_path(calls[0].args[0]) == (g.self_name,)
            chk.ob("R11.4", key + ":delegates", ok, g.loc(),
                   "%s must be self.ir.cfg.%s(self), got %s" % (key, meth, unparse(calls[0]) if calls else "none"), 3)
            if ok:
                # ... and hands the view's edges on as they are: wrappers that neither drop, add nor
                # compare elements (iter/list/tuple) are fine; sorting is fine only by a key made of
                # orderable parts (UUIDs, numbers, strings, enum values) — EdgeLabel holds an Enum,
                # a label can be None: sorting by them raises for some edge sets
                par = getattr(calls[0], "_parent", None)
                cur: ast.AST = calls[0]
                verdict: Optional[bool] = True
                why = ""
                while par is not None and not isinstance(par, (ast.Return, ast.stmt)):
                    if isinstance(par, ast.Call) and cur in par.args and isinstance(par.func, ast.Name) \
                            and par.func.id in ("iter", "list", "tuple"):
                        pass
                    elif isinstance(par, ast.Call) and cur in par.args and isinstance(par.func, ast.Name) \
                            and par.func.id == "sorted":
                        keyfn = next((k.value for k in par.keywords if k.arg == "key"), None)
                        v_, why = _orderable_key(keyfn)
                        if v_ is not True:
                            verdict = v_
                    elif isinstance(par, ast.YieldFrom) or (isinstance(par, ast.keyword)):
                        pass
                    else:
                        verdict, why = None, "passed through %s" % unparse(par)[:50]
                    if verdict is not True:
                        break
                    cur, par = par, getattr(par, "_parent", None)
                if verdict is True and isinstance(par, ast.stmt) and not isinstance(par, (ast.Return, ast.Expr)):
                    verdict, why = None, "bound by %s" % unparse(par)[:50]
                chk.ob("R11.4", key + ":view-handed-on-unchanged", verdict is True, g.loc(),
                       "%s must hand on the edges of self.ir.cfg.%s(self) as they are: %s" % (key, meth, why or "-"),
                       2, undecided=verdict is None)
            fl = Flow(g.node)
            if calls:
                cn = fl.node_of(calls[0])
                notnone: Set[int] = set()
                for n, i in fl.info.items():
                    if i.kind == "test" and isinstance(i.ast, ast.Compare) and len(i.ast.ops) == 1 and \
                            isinstance(i.ast.ops[0], (ast.Is, ast.IsNot)) and \
                            expand_path(i.ast.left, al) == (g.self_name, "ir"):
                        for b in fl.g.successors(n):
                            bi = fl.info[b]
                            if bi.kind == "branch" and bi.value == isinstance(i.ast.ops[0], ast.IsNot):
                                notnone.add(b)
                ok = bool(notnone) and fl.path_avoiding(fl.entry, cn, notnone) is None
                chk.ob("R11.4", key + ":detached-is-empty", ok, g.loc(),
                       "%s must be empty for a block that belongs to no IR" % key, 2)
    chk.floor("R11.4", "block edge properties", n_sib, 3)

    # R11.5 -----------------------------------------------------------------
    for cname in ("Edge", "EdgeLabel"):
        c = repo.cls(cname)
        chk.ob("R11.5", "%s:namedtuple" % cname, c.is_subclass_of("typing.NamedTuple"), c.loc(),
               "%s must stay a NamedTuple (value equality field by field)" % cname, 1)
        for nm in ("__eq__", "__hash__", "__ne__"):
            chk.ob("R11.5", "%s.%s" % (cname, nm), nm not in c.methods, c.loc(),
                   "%s overrides %s: CFG membership relies on tuple equality" % (cname, nm), 1)
    node = repo.cls("CfgNode")
    for c in [node] + repo.subclasses(node) + node.mro_classes():
        for nm in ("__eq__", "__hash__"):
            chk.ob("R11.5", "%s.%s" % (c.qualname, nm), nm not in c.methods, c.loc(),
                   "%s defines %s: CFG vertices are compared by identity" % (c.qualname, nm), 1)


def _yields_edge_in_order(f) -> bool:
    """for s, t, l in <view>: yield Edge(s, t, l)"""
    for n in walk_no_nested(f.node):
        if isinstance(n, ast.For) and isinstance(n.target, ast.Tuple) and len(n.target.elts) == 3:
            names = [e.id if isinstance(e, ast.Name) else None for e in n.target.elts]
            for y in ast.walk(n):
                if isinstance(y, ast.Yield) and isinstance(y.value, ast.Call) and \
                        (dotted(y.value.func) or ("",))[-1] == "Edge":
                    args = [a.id if isinstance(a, ast.Name) else None for a in y.value.args]
                    return args == names and not y.value.keywords
        if isinstance(n, ast.For) and isinstance(n.target, ast.Name):
            # for t in <view>: yield Edge(*t)   (the triple passed on whole)
            for y in ast.walk(n):
                if isinstance(y, ast.Yield) and isinstance(y.value, ast.Call) and \
                        (dotted(y.value.func) or ("",))[-1] == "Edge" and len(y.value.args) == 1 and \
                        isinstance(y.value.args[0], ast.Starred) and \
                        attr_path(y.value.args[0].value) == (n.target.id,) and not y.value.keywords:
                    return True
    return False


def _keys_from_graph(chk: Check, cfgc) -> None:
    n = 0
    for f in list(cfgc.methods.values()):
        ps = f.param_names()
        for c in walk_no_nested(f.node):
            if not (isinstance(c, ast.Call) and isinstance(c.func, ast.Attribute)
                    and attr_path(c.func.value) == (f.self_name, "_nxg")):
                continue
            keyargs = [k.value for k in c.keywords if k.arg == "key"]
            if c.func.attr in ("has_edge", "remove_edge", "get_edge_data", "add_edge") and len(c.args) >= 3:
                keyargs.append(c.args[2])
            for ka in keyargs:
                n += 1
                from_label = any(isinstance(x, ast.Attribute) and x.attr == "label" for x in ast.walk(ka))
                chk.ob("R11.6", "%s:%s(key=%s)" % (f.qualname, c.func.attr, unparse(ka)[:20]), not from_label,
                       f.loc(c), "%s passes the edge label as a networkx multigraph key (%s): a missing "
                       "label (None) is a wildcard there, so an unlabelled edge tests as present next to "
                       "any labelled parallel edge and discarding it removes another edge"
                       % (f.qualname, unparse(c)[:60]), 2)
    chk.extra["nx_key_arguments"] = n
