"""Generic well-formedness of the functions a check analysed (R00.x).

These are not properties of gtirb by themselves; they are the preconditions under which the
structural rules mean what they say: a function that is annotated to return a value returns
one on every path, and no branch condition is a constant.
"""
from __future__ import annotations

import ast
from typing import Dict

from ..cfg import CFG
from ..model import AnalysisError, FuncInfo, Repo, attr_path, dotted, unparse, walk_no_nested
from ..report import Check


def _index(repo: Repo) -> Dict[str, FuncInfo]:
    idx = getattr(repo, "_func_index", None)
    if idx is None:
        idx = {}
        for f in repo.all_functions():
            idx.setdefault(f.qualname, f)
            if f.is_setter:
                idx.setdefault(f.qualname + ".setter", f)
        repo._func_index = idx   # type: ignore[attr-defined]
    return idx


def _returns_nothing(ann: ast.AST) -> bool:
    if ann is None:
        return True
    if isinstance(ann, ast.Constant) and ann.value is None:
        return True
    t = unparse(ann)
    return t in ("None", "'None'", '"None"') or "NoReturn" in t


def check(chk: Check) -> None:
    from .sharing import extra
    try:
        extra(chk)
    except AnalysisError as e:
        chk.cannot_decide("R00.0", "analysis:%s" % str(e)[:80], "", str(e))
    idx = _index(chk.repo)
    chk.rule("R00.1", "a function annotated to return a value returns one on every path (no silent "
                      "fall-through returning None)")
    chk.rule("R00.2", "no branch condition of an analysed function is a constant")
    scope = set(chk.functions)
    # an analysis that stopped at a construct it could not follow has not seen the functions it
    # would have: the methods of the classes its message names are looked at all the same
    import re as _re
    for o in chk.obs:
        if o.undecided and o.rule == "R00.0":
            for w in set(_re.findall(r"[A-Za-z_][A-Za-z_0-9.]*", o.message)):
                k = chk.repo.cls_opt(w.split(".")[-1]) if w[:1].isupper() or "." in w else None
                if k is not None:
                    scope |= {m.qualname for m in k.methods.values()}
    for q in sorted(scope):
        f = idx.get(q)
        if f is None:
            continue
        node = f.node
        is_gen = any(isinstance(x, (ast.Yield, ast.YieldFrom)) for x in walk_no_nested(node))
        abstract = any(isinstance(x, ast.Raise) and "NotImplementedError" in unparse(x)
                       for x in node.body) or all(
            isinstance(s, (ast.Expr, ast.Pass)) for s in node.body)
        if not is_gen and not abstract and not _returns_nothing(node.returns) and node.returns is not None \
                and node.name != "__init__":
            cfg = CFG(node)
            falls = [p for p in cfg.g.predecessors(cfg.exit)
                     if not (isinstance(cfg.info[p].ast, ast.Return) and cfg.info[p].ast.value is not None)]

            def in_finally_of_returning_try(a: ast.AST) -> bool:
                # ``try: return X  finally: cleanup``: the end of the cleanup is not the end of the function
                cur, par = a, getattr(a, "_parent", None)
                while par is not None and par is not node:
                    if isinstance(par, ast.Try) and any(cur is s_ or any(cur is y for y in ast.walk(s_)) for s_ in par.finalbody):
                        last_ = par.body[-1] if par.body else None
                        if isinstance(last_, ast.Raise) or (isinstance(last_, ast.Return) and last_.value is not None):
                            return True
                    cur, par = par, getattr(par, "_parent", None)
                return False
            falls = [p for p in falls if not (cfg.info[p].ast is not None and in_finally_of_returning_try(cfg.info[p].ast))]
            # ``return`` without a value counts as falling through, too
            ok = not falls
            if "Optional" in unparse(node.returns) or unparse(node.returns) in ("object", "Any", "typing.Any"):
                ok = True       # None is a legal result
            chk.ob("R00.1", "%s:returns-a-value" % q, ok, f.loc(),
                   "%s is annotated '-> %s' but a path falls off its end (returns None): %s"
                   % (q, unparse(node.returns)[:40],
                      " -> ".join(cfg.describe_path(cfg.path_avoiding(cfg.entry, cfg.exit, set()) or [])[:0]) or
                      "callers receive None instead of the value"), 1)
        # R00.7 a function object made in a loop that reads the loop variable and outlives the
        # iteration (handed to a constructor, stored, queued) sees the variable's *last* value
        for lp in [x for x in walk_no_nested(node) if isinstance(x, ast.For)]:
            tnames = {n_.id for n_ in ast.walk(lp.target) if isinstance(n_, ast.Name)}
            # names bound in the body belong to the iteration as well
            tnames |= {n_.id for b_ in lp.body for n_ in ast.walk(b_)
                       if isinstance(n_, ast.Name) and isinstance(n_.ctx, ast.Store)
                       and not any(isinstance(z, (ast.Lambda, ast.FunctionDef)) and any(n_ is w for w in ast.walk(z))
                                   for z in ast.walk(b_))}
            for b_ in lp.body:
                for fn_ in [z for z in ast.walk(b_) if isinstance(z, (ast.Lambda, ast.FunctionDef))]:
                    own = {a_.arg for a_ in ast.walk(fn_.args) if isinstance(a_, ast.arg)}
                    inner = fn_.body if isinstance(fn_.body, list) else [fn_.body]
                    own |= {n_.id for s_ in inner for n_ in ast.walk(s_)
                            if isinstance(n_, ast.Name) and isinstance(n_.ctx, ast.Store)}
                    free = {n_.id for s_ in inner for n_ in ast.walk(s_)
                            if isinstance(n_, ast.Name) and isinstance(n_.ctx, ast.Load)} - own
                    late = sorted(free & tnames)
                    if not late:
                        continue
                    # does it outlive the iteration?
                    par = getattr(fn_, "_parent", None)
                    escapes = None
                    if isinstance(fn_, ast.Lambda):
                        if isinstance(par, ast.Call) and any(fn_ is a_ for a_ in par.args) or \
                                isinstance(par, ast.keyword):
                            call = par if isinstance(par, ast.Call) else getattr(par, "_parent", None)
                            fnm = (dotted(call.func) or attr_path(call.func) or ("",))[-1] if isinstance(call, ast.Call) else ""
                            if fnm[:1].isupper() or fnm.lstrip("_")[:1].isupper() or fnm in ("append", "add", "partial", "setdefault"):
                                escapes = "handed to %s(...)" % fnm
                        elif isinstance(par, (ast.Assign, ast.AnnAssign)) and any(
                                isinstance(t_, (ast.Attribute, ast.Subscript))
                                for t_ in (par.targets if isinstance(par, ast.Assign) else [par.target])):
                            escapes = "stored"
                        elif isinstance(par, (ast.Yield, ast.Return, ast.Dict, ast.List, ast.Tuple)):
                            escapes = "kept in a %s" % type(par).__name__.lower()
                    else:
                        uses = [n_ for s_ in lp.body for n_ in ast.walk(s_) if isinstance(n_, ast.Name) and n_.id == fn_.name
                                and isinstance(n_.ctx, ast.Load)]
                        for u_ in uses:
                            pu = getattr(u_, "_parent", None)
                            if isinstance(pu, ast.Call) and pu.func is u_:
                                continue
                            escapes = "passed on as a value"
                    if escapes:
                        chk.rule("R00.7", "a function object made inside a loop that outlives the iteration does not read "
                                          "the loop's variables (it would see their last values)")
                        chk.ob("R00.7", "%s:late-binding(%s)" % (q, ",".join(late)), False, f.loc(fn_),
                               "%s makes a function object inside a loop that reads %s and is %s: when it is called "
                               "later it sees the value of the last iteration, for every iteration"
                               % (q, ", ".join(late), escapes), 2)
        for x in walk_no_nested(node):
            t = None
            if isinstance(x, (ast.If, ast.While, ast.IfExp)):
                t = x.test
            if t is not None and isinstance(t, ast.Constant) and not (isinstance(x, ast.While) and t.value is True):
                chk.ob("R00.2", "%s:constant-condition@%s" % (q, type(x).__name__), False, f.loc(x),
                       "%s branches on the constant %r: one side of a decision the rules rely on is dead"
                       % (q, t.value), 1)
        # R00.3 a mutable default argument that the function (or a closure of it) writes to is
        # state shared by every call in the process
        a = node.args
        pos = list(a.posonlyargs) + list(a.args)
        defaults = list(zip(pos[len(pos) - len(a.defaults):], a.defaults)) + \
            [(p, d) for p, d in zip(a.kwonlyargs, a.kw_defaults) if d is not None]
        for prm, d in defaults:
            mutable = isinstance(d, (ast.Dict, ast.List, ast.Set)) or (
                isinstance(d, ast.Call) and isinstance(d.func, ast.Name)
                and d.func.id in ("dict", "list", "set", "defaultdict", "OrderedDict", "bytearray"))
            if not mutable:
                continue
            writes = []
            for x in ast.walk(node):
                if isinstance(x, ast.Subscript) and isinstance(x.ctx, (ast.Store, ast.Del)) and \
                        isinstance(x.value, ast.Name) and x.value.id == prm.arg:
                    writes.append(x)
                if isinstance(x, ast.Call) and isinstance(x.func, ast.Attribute) and \
                        isinstance(x.func.value, ast.Name) and x.func.value.id == prm.arg and \
                        x.func.attr in ("append", "add", "update", "setdefault", "pop", "popitem", "clear",
                                        "extend", "insert", "remove", "discard", "sort", "reverse",
                                        "__setitem__", "__delitem__"):
                    writes.append(x)
                if isinstance(x, ast.AugAssign) and isinstance(x.target, ast.Name) and x.target.id == prm.arg:
                    writes.append(x)
            chk.rule("R00.3", "a mutable default argument is never written to (it would be state shared "
                              "by every call: results would depend on earlier calls)")
            chk.ob("R00.3", "%s:default(%s)-not-written" % (q, prm.arg), not writes, f.loc(),
                   "%s writes to its parameter '%s', whose default is the mutable object %s created "
                   "once at definition time: every call that relies on the default shares it, so what "
                   "one call (one load, one IR) stored is seen by the next"
                   % (q, prm.arg, unparse(d)), 1)
        # R00.4 a one-shot iterator bound to a local is consumed at most once
        lazy_calls = {"chain", "from_iterable", "map", "filter", "zip", "iter", "enumerate", "reversed",
                      "starmap", "islice"}

        def _lazy(e: ast.AST, depth: int = 0) -> bool:
            if isinstance(e, ast.GeneratorExp):
                return True
            if isinstance(e, ast.Call):
                nm = e.func.attr if isinstance(e.func, ast.Attribute) else getattr(e.func, "id", None)
                if nm in lazy_calls:
                    return True
                # a generator method / function of the package
                if isinstance(e.func, ast.Attribute) and isinstance(e.func.value, ast.Name) and \
                        e.func.value.id == f.self_name and f.cls is not None:
                    g = f.cls.find_method(nm) if nm else None
                    if g is not None and any(isinstance(x, (ast.Yield, ast.YieldFrom)) for x in walk_no_nested(g.node)):
                        return True
                return False
            if isinstance(e, ast.Attribute) and isinstance(e.value, ast.Name) and e.value.id == f.self_name \
                    and f.cls is not None and depth < 2:
                for k in f.cls.mro_classes():
                    pr = k.props.get(e.attr)
                    if pr is not None and pr.getter is not None:
                        gn = pr.getter.node
                        if any(isinstance(x, (ast.Yield, ast.YieldFrom)) for x in walk_no_nested(gn)):
                            return True
                        rets_ = [r for r in walk_no_nested(gn) if isinstance(r, ast.Return) and r.value is not None]
                        return bool(rets_) and all(_lazy(r.value, depth + 1) for r in rets_)
            return False
        counts_: dict = {}
        for x in walk_no_nested(node):
            if isinstance(x, ast.Name) and isinstance(x.ctx, ast.Store):
                counts_[x.id] = counts_.get(x.id, 0) + 1
        for x in walk_no_nested(node):
            if isinstance(x, ast.Assign) and len(x.targets) == 1 and isinstance(x.targets[0], ast.Name) \
                    and counts_.get(x.targets[0].id) == 1 and _lazy(x.value):
                nm_ = x.targets[0].id
                loads = [y for y in walk_no_nested(node) if isinstance(y, ast.Name) and y.id == nm_
                         and isinstance(y.ctx, ast.Load)]
                # deliberate partial consumption: a ``for`` over it that is left by ``break``, or
                # ``next(it)``, leaves the rest for the next consumer
                partial_ = 0
                for y in loads:
                    par_ = getattr(y, "_parent", None)
                    if isinstance(par_, ast.For) and par_.iter is y and any(
                            isinstance(b_, ast.Break) for s_ in par_.body for b_ in ast.walk(s_)):
                        partial_ += 1
                    elif isinstance(par_, ast.Call) and isinstance(par_.func, ast.Name) and par_.func.id == "next" \
                            and par_.args and par_.args[0] is y:
                        partial_ += 1
                loads = loads[:max(0, len(loads) - partial_)] if partial_ else loads
                chk.rule("R00.4", "a local bound to a one-shot iterator (generator, chain, map, ...) is consumed at "
                                  "most once: a second consumer sees it exhausted")
                chk.ob("R00.4", "%s:one-shot(%s)" % (q, nm_), len(loads) <= 1, f.loc(x),
                       "%s binds %s to a one-shot iterator (%s) and uses it %d times: every use after the "
                       "first sees it exhausted (empty)" % (q, nm_, unparse(x.value)[:50], len(loads)), 1)
    _optional_scalars(chk, idx)
    one_shot_parameters(chk, idx)


_FALSY_SCALARS = ("int", "str", "bytes", "float", "bool", "bytearray", "List", "list", "Dict", "dict", "Set",
                  "set", "Sequence", "Tuple", "tuple", "range")


def _optional_scalars(chk: Check, idx) -> None:
    """R00.5: a parameter declared Optional[<int, str, bytes, a container>] is compared with None,
    never tested by truthiness: ``if not size`` / ``stop or n`` treats the legal values 0, '' and
    empty containers as "not given".  Scanned in every function of the modules this property's
    rules looked at (a helper class added next to them is on the same paths)."""
    # scope: the functions the property's rules looked at, and the methods of helper classes
    # those functions instantiate (a reader / cache / view class added next to them is on the
    # same paths), transitively
    scope = {q_ for q_ in chk.functions if q_ in idx}
    by_class = {}
    for q_, f_ in idx.items():
        if f_.cls is not None:
            by_class.setdefault(f_.cls.name, []).append(q_)
    todo = list(scope)
    while todo:
        q_ = todo.pop()
        for x in walk_no_nested(idx[q_].node):
            if isinstance(x, ast.Call):
                nm_ = x.func.id if isinstance(x.func, ast.Name) else x.func.attr if isinstance(x.func, ast.Attribute) else None
                for q2 in by_class.get(nm_ or "", []):
                    if q2 not in scope:
                        scope.add(q2)
                        todo.append(q2)
    chk.rule("R00.5", "an Optional scalar/container parameter is tested with 'is None', not by truthiness")
    for q, f in sorted(idx.items()):
        if q not in scope:
            continue
        a = f.node.args
        opt = {}
        for x in a.posonlyargs + a.args + a.kwonlyargs:
            if x.annotation is None:
                continue
            s = unparse(x.annotation)
            if "Optional[" in s and any(("Optional[%s" % t) in s.replace("typing.", "") or
                                        ("Optional[typing.%s" % t) in s for t in _FALSY_SCALARS):
                opt[x.arg] = s
        if not opt:
            continue
        for n in walk_no_nested(f.node):
            tests = []
            if isinstance(n, (ast.If, ast.While, ast.IfExp)):
                tests.append(n.test)
            elif isinstance(n, ast.BoolOp):
                tests.extend(n.values[:-1] if not isinstance(getattr(n, "_parent", None), (ast.If, ast.While, ast.IfExp))
                             else n.values)
            for t in tests:
                while isinstance(t, ast.UnaryOp) and isinstance(t.op, ast.Not):
                    t = t.operand
                if isinstance(t, ast.Name) and t.id in opt:
                    chk.ob("R00.5", "%s:truthiness-of-optional(%s)" % (q, t.id), False, f.loc(n),
                           "%s tests its parameter %s: %s by truthiness (%s): 0 / '' / an empty container is "
                           "a legal argument and is treated like None" % (q, t.id, opt[t.id], unparse(n)[:50]), 1)


_ONE_SHOT_ANN = ("Iterable", "Iterator", "Generator", "DictLike")
_RE_ITERABLE_ANN = ("Collection", "Sequence", "List", "Set", "Dict", "Mapping", "Tuple", "FrozenSet", "Container")


def one_shot_parameters(chk: Check, idx) -> None:
    """R00.6: an argument declared Iterable (or DictLike) may be a generator: it can be walked
    once.  A function that iterates it, or hands it to a call, twice along one path sees it empty
    the second time (a validation loop in front of the real consumer empties it)."""
    from ..cfg import CFG
    chk.rule("R00.6", "a parameter declared Iterable/Iterator/DictLike is consumed at most once along any path "
                      "(unless it is first materialised and rebound)")
    for q in sorted(chk.functions):
        f = idx.get(q)
        if f is None:
            continue
        a = f.node.args
        plain = {}
        for x in a.posonlyargs + a.args + a.kwonlyargs:
            if x.annotation is None:
                continue
            s = unparse(x.annotation)
            outer = s.replace("typing.", "").replace("Optional[", "").lstrip('"\'')
            if outer.startswith(_ONE_SHOT_ANN):
                plain[x.arg] = s
        elementwise = None
        if a.vararg is not None and a.vararg.annotation is not None and \
                unparse(a.vararg.annotation).replace("typing.", "").lstrip('"\'').startswith(_ONE_SHOT_ANN):
            elementwise = a.vararg.arg
        if not plain and elementwise is None:
            continue
        stored = {n.id for n in walk_no_nested(f.node) if isinstance(n, ast.Name) and not isinstance(n.ctx, ast.Load)}
        cfg = None
        for p in sorted(plain):
            if p in stored:
                continue            # rebound (materialised) somewhere: not followed
            events = []
            for n in walk_no_nested(f.node):
                if isinstance(n, (ast.For, ast.comprehension)) and isinstance(n.iter, ast.Name) and n.iter.id == p:
                    events.append(n.iter)
                elif isinstance(n, ast.YieldFrom) and isinstance(n.value, ast.Name) and n.value.id == p:
                    events.append(n.value)
                elif isinstance(n, ast.Call) and not (isinstance(n.func, ast.Name) and n.func.id in (
                        "isinstance", "len", "iter", "id", "type", "repr", "hasattr", "bool")):
                    for arg in list(n.args) + [k.value for k in n.keywords]:
                        v = arg.value if isinstance(arg, ast.Starred) else arg
                        if isinstance(v, ast.Name) and v.id == p:
                            events.append(v)
            if len(events) < 2:
                continue
            if cfg is None:
                cfg = CFG(f.node)
            pair = _sequential_pair(cfg, events)
            chk.ob("R00.6", "%s:consumed-once(%s)" % (q, p), pair is None, f.loc(pair[1]) if pair else f.loc(),
                   "%s walks its parameter %s: %s twice along one path (%s, then %s): a generator argument is "
                   "empty the second time" % (q, p, plain[p], _ctx(pair[0]) if pair else "", _ctx(pair[1]) if pair else ""), 2)
        if elementwise is not None and elementwise not in stored:
            p = elementwise
            events = []
            for n in walk_no_nested(f.node):
                if isinstance(n, ast.Call):
                    for arg in n.args:
                        if isinstance(arg, ast.Starred) and isinstance(arg.value, ast.Name) and arg.value.id == p:
                            events.append(arg.value)
                        elif isinstance(arg, ast.Name) and arg.id == p and not (
                                isinstance(n.func, ast.Name) and n.func.id in ("len", "isinstance", "bool", "iter", "enumerate")):
                            events.append(arg)
                if isinstance(n, (ast.For, ast.comprehension)) and isinstance(n.iter, ast.Name) and n.iter.id == p:
                    # for x in args: ... x is consumed if iterated / passed on inside
                    tnames = {t.id for t in ast.walk(n.target) if isinstance(t, ast.Name)}
                    scope = n if isinstance(n, ast.For) else getattr(n, "_parent", None)
                    used = False
                    for m in ast.walk(scope) if scope is not None else []:
                        if isinstance(m, (ast.For, ast.comprehension)) and isinstance(m.iter, ast.Name) and m.iter.id in tnames:
                            used = True
                        if isinstance(m, ast.Call) and any(isinstance(z, ast.Name) and z.id in tnames for z in m.args) \
                                and not (isinstance(m.func, ast.Name) and m.func.id in ("isinstance", "len", "type")):
                            used = True
                    if used:
                        events.append(n.iter)
            if len(events) >= 2:
                if cfg is None:
                    cfg = CFG(f.node)
                pair = _sequential_pair(cfg, events)
                chk.ob("R00.6", "%s:elements-consumed-once(*%s)" % (q, p), pair is None,
                       f.loc(pair[1]) if pair else f.loc(),
                       "%s walks the iterables passed as *%s twice along one path (%s, then %s): a generator "
                       "argument is empty the second time" % (q, p, _ctx(pair[0]) if pair else "", _ctx(pair[1]) if pair else ""), 2)


def _ctx(n: ast.AST) -> str:
    cur = n
    for _ in range(3):
        par = getattr(cur, "_parent", None)
        if par is None or isinstance(par, ast.stmt):
            cur = par if par is not None else cur
            break
        cur = par
    return unparse(cur).split("\n")[0][:50]


def _sequential_pair(cfg, events):
    nodes = []
    for e in events:
        try:
            nodes.append((cfg.node_of(e), e))
        except AnalysisError:
            continue
    for i, (n1, e1) in enumerate(nodes):
        for j, (n2, e2) in enumerate(nodes):
            if i == j:
                continue
            if n1 == n2:
                if i < j:
                    return (e1, e2)
                continue
            if n2 in cfg.reachable(n1) and not (n1 in cfg.reachable(n2) and i > j):
                return (e1, e2)
    return None
