"""E6 statement-level control-flow graph with short-circuit tests.

Nodes are integers; ``info[n]`` is a CNode.  Compound statements contribute a
node per *atomic test* (``a and b`` gives two), each followed by two
``branch`` nodes so that "dominated by the false branch of test T" is plain
node dominance.  Implicit exceptions are modelled only inside ``try`` bodies
(an edge from every node of the body to each handler).
"""
from __future__ import annotations

import ast
from typing import Callable, Dict, Iterable, List, Optional, Set, Tuple

import networkx as nx

from .model import AnalysisError


class CNode:
    __slots__ = ("id", "kind", "ast", "value", "test")

    def __init__(self, id: int, kind: str, node: Optional[ast.AST] = None,
                 value: Optional[bool] = None, test: Optional[int] = None):
        self.id = id
        self.kind = kind      # entry exit raise stmt test branch loop handler join
        self.ast = node
        self.value = value    # for branch nodes
        self.test = test      # for branch nodes: id of the test node

    def __repr__(self) -> str:
        s = ""
        if self.ast is not None:
            try:
                s = ast.unparse(self.ast).split("\n")[0][:60]
            except Exception:
                s = type(self.ast).__name__
        if self.kind == "branch":
            return "<%d branch %s of %s>" % (self.id, self.value, self.test)
        return "<%d %s %s>" % (self.id, self.kind, s)


class CFG:
    def __init__(self, fn: ast.FunctionDef):
        self.fn = fn
        self.g = nx.DiGraph()
        self.info: Dict[int, CNode] = {}
        self._n = 0
        self.entry = self._new("entry")
        self.exit = self._new("exit")        # normal return
        self.raise_exit = self._new("raise")  # exceptional exit
        self.by_ast: Dict[int, int] = {}     # id(ast stmt / test expr) -> node
        self._loops: List[Tuple[int, int]] = []   # (continue target, break join)
        self._handlers: List[List[int]] = []      # stack of handler entry lists
        self._finally: List[Optional[List[ast.stmt]]] = []
        outs = self._block(fn.body, [self.entry])
        for o in outs:
            self.g.add_edge(o, self.exit)
        self._idom: Optional[Dict[int, int]] = None
        self._ipdom: Optional[Dict[int, int]] = None

    # -- construction --------------------------------------------------------
    def _new(self, kind: str, node: Optional[ast.AST] = None, **kw) -> int:
        self._n += 1
        self.info[self._n] = CNode(self._n, kind, node, **kw)
        self.g.add_node(self._n)
        if node is not None and kind in ("stmt", "test", "loop", "handler"):
            self.by_ast.setdefault(id(node), self._n)
        return self._n

    def _link(self, preds: Iterable[int], n: int) -> None:
        for p in preds:
            self.g.add_edge(p, n)

    def _exc_edges(self, n: int) -> None:
        """inside try bodies, any node may transfer to the handlers"""
        if self._handlers:
            for h in self._handlers[-1]:
                self.g.add_edge(n, h)

    def _raise_target(self, n: int) -> None:
        if self._handlers:
            for h in self._handlers[-1]:
                self.g.add_edge(n, h)
            # a raise may also not be caught by the listed handlers
            self._propagate(n, len(self._handlers) - 1)
        else:
            self.g.add_edge(n, self.raise_exit)

    def _propagate(self, n: int, level: int) -> None:
        if level <= 0:
            self.g.add_edge(n, self.raise_exit)
        else:
            for h in self._handlers[level - 1]:
                self.g.add_edge(n, h)
            self._propagate(n, level - 1)

    def _test(self, expr: ast.AST, preds: List[int]) -> Tuple[List[int], List[int]]:
        """Build test nodes for ``expr``; return (true-outs, false-outs)."""
        if isinstance(expr, ast.BoolOp) and isinstance(expr.op, ast.And):
            t_outs = preds
            f_all: List[int] = []
            for v in expr.values:
                t_outs, f = self._test(v, t_outs)
                f_all.extend(f)
            return t_outs, f_all
        if isinstance(expr, ast.BoolOp) and isinstance(expr.op, ast.Or):
            f_outs = preds
            t_all: List[int] = []
            for v in expr.values:
                t, f_outs = self._test(v, f_outs)
                t_all.extend(t)
            return t_all, f_outs
        if isinstance(expr, ast.UnaryOp) and isinstance(expr.op, ast.Not):
            t, f = self._test(expr.operand, preds)
            return f, t
        n = self._new("test", expr)
        self._link(preds, n)
        self._exc_edges(n)
        bt = self._new("branch", expr, value=True, test=n)
        bf = self._new("branch", expr, value=False, test=n)
        self.g.add_edge(n, bt)
        self.g.add_edge(n, bf)
        if isinstance(expr, ast.Constant):
            # ``while True`` / ``if False``: drop the infeasible edge
            self.g.remove_edge(n, bf if expr.value else bt)
        return [bt], [bf]

    def _block(self, stmts: List[ast.stmt], preds: List[int]) -> List[int]:
        for st in stmts:
            preds = self._stmt(st, preds)
        return preds

    def _stmt(self, st: ast.stmt, preds: List[int]) -> List[int]:
        if isinstance(st, ast.If):
            t, f = self._test(st.test, preds)
            self.by_ast.setdefault(id(st), self.by_ast.get(id(st.test), 0) or
                                   self._first_test(st.test))
            o1 = self._block(st.body, t)
            o2 = self._block(st.orelse, f) if st.orelse else f
            return o1 + o2
        if isinstance(st, (ast.For, ast.AsyncFor)):
            head = self._new("loop", st)
            self._link(preds, head)
            self._exc_edges(head)
            body_in = self._new("branch", st, value=True, test=head)
            done = self._new("branch", st, value=False, test=head)
            self.g.add_edge(head, body_in)
            self.g.add_edge(head, done)
            brk = self._new("join", st)
            self._loops.append((head, brk))
            outs = self._block(st.body, [body_in])
            self._loops.pop()
            self._link(outs, head)
            o = self._block(st.orelse, [done]) if st.orelse else [done]
            if self.g.in_degree(brk):
                return o + [brk]
            return o
        if isinstance(st, ast.While):
            # a join node gives the back edge a single target
            head = self._new("join", st)
            self._link(preds, head)
            t, f = self._test(st.test, [head])
            self.by_ast.setdefault(id(st), head)
            brk = self._new("join", st)
            self._loops.append((head, brk))
            outs = self._block(st.body, t)
            self._loops.pop()
            self._link(outs, head)
            o = self._block(st.orelse, f) if st.orelse else f
            if self.g.in_degree(brk):
                return o + [brk]
            return o
        if isinstance(st, ast.Try):
            handlers = [self._new("handler", h) for h in st.handlers]
            self._handlers.append(handlers)
            entry_marker = self._new("join", st)
            self._link(preds, entry_marker)
            for h in handlers:
                self.g.add_edge(entry_marker, h)
            outs = self._block(st.body, [entry_marker])
            self._handlers.pop()
            outs = self._block(st.orelse, outs) if st.orelse else outs
            for h, hn in zip(handlers, st.handlers):
                outs = outs + self._block(hn.body, [h])
            if st.finalbody:
                outs = self._block(st.finalbody, outs)
            return outs
        if isinstance(st, (ast.With, ast.AsyncWith)):
            n = self._new("stmt", st)
            self._link(preds, n)
            self._exc_edges(n)
            return self._block(st.body, [n])
        if isinstance(st, ast.Return):
            n = self._new("stmt", st)
            self._link(preds, n)
            self._exc_edges(n)
            self.g.add_edge(n, self.exit)
            return []
        if isinstance(st, ast.Raise):
            n = self._new("stmt", st)
            self._link(preds, n)
            self._raise_target(n)
            return []
        if isinstance(st, ast.Break):
            n = self._new("stmt", st)
            self._link(preds, n)
            if not self._loops:
                raise AnalysisError("break outside loop")
            self.g.add_edge(n, self._loops[-1][1])
            return []
        if isinstance(st, ast.Continue):
            n = self._new("stmt", st)
            self._link(preds, n)
            if not self._loops:
                raise AnalysisError("continue outside loop")
            self.g.add_edge(n, self._loops[-1][0])
            return []
        if isinstance(st, (ast.FunctionDef, ast.AsyncFunctionDef, ast.ClassDef)):
            n = self._new("stmt", st)
            self._link(preds, n)
            return [n]
        if isinstance(st, ast.Match):
            raise AnalysisError("match statement outside the CFG fragment")
        # simple statement (Expr, Assign, AugAssign, AnnAssign, Assert, Delete,
        # Pass, Import, Global, Nonlocal)
        n = self._new("stmt", st)
        self._link(preds, n)
        self._exc_edges(n)
        return [n]

    def _first_test(self, expr: ast.AST) -> int:
        while isinstance(expr, (ast.BoolOp, ast.UnaryOp)):
            expr = expr.values[0] if isinstance(expr, ast.BoolOp) else expr.operand
        return self.by_ast.get(id(expr), 0)

    # -- queries -------------------------------------------------------------
    def node_of(self, a: ast.AST) -> int:
        """CFG node of the statement (or test) that contains AST node ``a``."""
        cur: Optional[ast.AST] = a
        while cur is not None:
            n = self.by_ast.get(id(cur))
            if n:
                return n
            cur = getattr(cur, "_parent", None)
            if cur is self.fn:
                break
        raise AnalysisError("AST node not in CFG: %s" % ast.dump(a)[:80])

    def stmt_nodes(self) -> List[int]:
        return [n for n, i in self.info.items()
                if i.kind in ("stmt", "test", "loop")]

    def nodes_where(self, pred: Callable[[ast.AST], bool]) -> Set[int]:
        """CFG nodes whose own AST (statement header / test) contains a
        sub-node satisfying ``pred``.  Bodies of compound statements belong to
        their own nodes."""
        out: Set[int] = set()
        for n, i in self.info.items():
            if i.kind not in ("stmt", "test", "loop") or i.ast is None:
                continue
            for sub in _own_nodes(i):
                if pred(sub):
                    out.add(n)
                    break
        return out

    def idom(self) -> Dict[int, int]:
        if self._idom is None:
            self._idom = nx.immediate_dominators(self.g, self.entry)
        return self._idom

    def dominates(self, a: int, b: int) -> bool:
        idom = self.idom()
        if b not in idom:
            return True   # unreachable: vacuous
        cur = b
        while True:
            if cur == a:
                return True
            nxt = idom.get(cur)
            if nxt is None or nxt == cur:
                return False
            cur = nxt

    def facts_at(self, n: int) -> List[Tuple[ast.AST, bool]]:
        """(atomic test, outcome) for every branch that dominates ``n``: what is known to hold
        whenever control reaches n, however the guards are spelt (nested ifs, early exits,
        and/or, not)"""
        out: List[Tuple[ast.AST, bool]] = []
        idom = self.idom()
        cur = n
        while cur in idom and idom[cur] != cur:
            cur = idom[cur]
            i = self.info[cur]
            if i.kind == "branch" and i.ast is not None:
                out.append((i.ast, bool(i.value)))
        return out

    def canonical_facts(self, a: ast.AST, rename: Optional[Dict[str, str]] = None) -> List[str]:
        """the facts that hold where AST node ``a`` is evaluated, as canonical signed texts
        ('+x is None', '-isinstance(n, Symbol)'); spelling-independent (see summaries.Atoms)"""
        from .summaries import Atoms
        at = Atoms()
        out = []
        for t, v in self.facts_at(self.node_of(a)):
            k, flip = at.canon(t)
            txt = " ".join(k)
            for old, new in (rename or {}).items():
                txt = txt.replace(old, new)
            out.append(("+" if v != flip else "-") + txt)
        return sorted(set(out))

    def reachable(self, src: int, avoid: Set[int] = frozenset()) -> Set[int]:
        seen = {src}
        stack = [src]
        while stack:
            n = stack.pop()
            for s in self.g.successors(n):
                if s not in seen and s not in avoid:
                    seen.add(s)
                    stack.append(s)
        return seen

    def path_avoiding(self, src: int, dst: int, avoid: Set[int]) -> Optional[List[int]]:
        """A path src -> dst that touches no node of ``avoid`` (src/dst
        themselves excluded from the test), or None."""
        prev: Dict[int, int] = {}
        seen = {src}
        queue = [src]
        while queue:
            n = queue.pop(0)
            if n == dst:
                path = [n]
                while path[-1] != src:
                    path.append(prev[path[-1]])
                return list(reversed(path))
            for s in self.g.successors(n):
                if s in seen or (s in avoid and s != dst):
                    continue
                seen.add(s)
                prev[s] = n
                queue.append(s)
        return None

    def all_paths_hit(self, src: int, dst: int, hit: Set[int],
                      excused: Set[int] = frozenset()) -> Optional[List[int]]:
        """None if every path src->dst passes a node of ``hit`` (paths through
        an ``excused`` node are not required to); else a witness path."""
        return self.path_avoiding(src, dst, set(hit) | set(excused))

    def branch(self, test_ast: ast.AST, value: bool) -> Optional[int]:
        t = self.by_ast.get(id(test_ast))
        if not t:
            return None
        for s in self.g.successors(t):
            i = self.info[s]
            if i.kind == "branch" and i.value == value:
                return s
        return None

    def describe_path(self, path: List[int]) -> List[str]:
        out = []
        for n in path:
            i = self.info[n]
            if i.kind in ("entry", "exit", "raise"):
                out.append(i.kind)
            elif i.kind == "branch":
                t = self.info[i.test] if i.test else None
                src = ast.unparse(i.ast).split("\n")[0][:50] if i.ast is not None else "?"
                out.append("[%s is %s]" % (src, i.value))
            elif i.kind in ("stmt", "loop") and i.ast is not None:
                out.append("L%d" % getattr(i.ast, "lineno", 0))
        return out


def _own_nodes(i: CNode) -> Iterable[ast.AST]:
    """AST nodes evaluated *at* this CFG node (not in nested bodies)."""
    a = i.ast
    if a is None:
        return []
    if i.kind == "test":
        return list(_walk_expr(a))
    if isinstance(a, (ast.For, ast.AsyncFor)):
        return list(_walk_expr(a.iter)) + list(_walk_expr(a.target))
    if isinstance(a, (ast.With, ast.AsyncWith)):
        out: List[ast.AST] = []
        for it in a.items:
            out.extend(_walk_expr(it.context_expr))
        return out
    if isinstance(a, (ast.FunctionDef, ast.AsyncFunctionDef, ast.ClassDef)):
        return [a]
    return list(_walk_expr(a))


def _walk_expr(a: ast.AST) -> Iterable[ast.AST]:
    """walk without entering nested defs; lambdas/comprehensions entered."""
    stack = [a]
    while stack:
        n = stack.pop()
        yield n
        for ch in ast.iter_child_nodes(n):
            if isinstance(ch, (ast.FunctionDef, ast.AsyncFunctionDef, ast.ClassDef)):
                continue
            stack.append(ch)
